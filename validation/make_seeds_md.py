#!/usr/bin/env python3
"""Renders validation/seeds.md from seeded/*/, validation/results*/ (the narrative sections are kept in
validation/seeds_notes.md and appended)."""
import glob
import json
import os

HERE = os.path.dirname(os.path.abspath(__file__))
VERIF = os.path.dirname(HERE)


def txt(x):
    if isinstance(x, list):
        x = ' '.join(map(str, x))
    return (x or '').replace('\n', ' ').replace('|', '/')


rows = []
for d in sorted(glob.glob(os.path.join(VERIF, 'seeded', '*'))):
    sid = os.path.basename(d)
    rf = os.path.join(HERE, 'results', 'seed-%s.json' % sid)
    if not os.path.exists(rf):
        continue
    r = json.load(open(rf))
    m = json.load(open(os.path.join(d, 'meta.json')))
    v = json.load(open(os.path.join(d, 'verified.json')))
    targets = m.get('property_ids') or r['targets']
    m['property_ids'] = targets
    m['confirmed_by_verify_seed'] = v
    m['what_i_ran'] = ["python3 validation/verify_seed.py seeded/%s  (scratch copy of /repo: patch applies, 59 tests x 3 feature sets pass, demo fails with / passes without)" % sid,
                       "python3 validation/run_mutations.py [--all-checks] --seed-dir seeded/%s  (quick checks against the scratch copy)" % sid]
    m['checks_result'] = {c: {'exit': x['rc'], 'signatures': x['signatures'], 'first_line': x['first']} for c, x in r['checks'].items()}
    m['caught_by'] = r['caught_by']
    m['caught_in_tier'] = r.get('tier', 'quick')
    before = None
    bf = os.path.join(HERE, 'results-before', 'seed-%s.json' % sid)
    if os.path.exists(bf):
        before = json.load(open(bf))['caught_by']
        m['caught_by_before_strengthening'] = before
    json.dump(m, open(os.path.join(d, 'meta.json'), 'w'), indent=1)
    tgt = targets[0]
    others = [c for c in r['caught_by'] if c != tgt]
    sig = (r['checks'].get(tgt, {}).get('signatures') or [''])[:2]
    rows.append((sid, tgt, txt(m.get('what_it_breaks'))[:220], txt(m.get('needs_to_manifest'))[:180], before,
                 tgt in r['caught_by'], others, len(r['checks']), ', '.join(sig), r.get('tier', 'quick')))

out = open(os.path.join(HERE, 'seeds_head.md')).read()
out += "| seed | property | what it breaks | needs | targeted check before strengthening | targeted check now | other checks that also fire | signatures (targeted) |\n|---|---|---|---|---|---|---|---|\n"
for sid, p, what, needs, before, now, others, nchecks, sig, tier in rows:
    b = 'n/a (round 1)' if before is None else ('caught' if p in before else '**missed**')
    o = ', '.join(others) if nchecks > 1 else '(matrix not run)'
    out += "| %s | %s | %s | %s | %s | %s | %s | %s |\n" % (sid, p, what, needs, b, ('caught' + (' (thorough tier only)' if tier == 'thorough' else '')) if now else '**missed**', o or 'none', sig.replace('|', '/'))
out += "\n" + open(os.path.join(HERE, 'seeds_notes.md')).read()
open(os.path.join(HERE, 'seeds.md'), 'w').write(out)
print("seeds.md: %d seeds, %d caught by their targeted check" % (len(rows), sum(1 for r in rows if r[5])))
