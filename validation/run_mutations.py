#!/usr/bin/env python3
"""Monitor validation: apply each mutation of mutations.py to a scratch copy of /repo (never
to /repo itself), confirm that the repository's own suite still passes, run the targeted quick
checks against the scratch copy and record which checks fire.

    python3 validation/run_mutations.py [-j N] [--all-checks] [id ...]

Scratch copies live under /tmp/aisverif-mut and are removed at the end.
"""
import concurrent.futures as cf
import json
import os
import re
import shutil
import subprocess
import sys
import time

HERE = os.path.dirname(os.path.abspath(__file__))
VERIF = os.path.dirname(HERE)
sys.path.insert(0, HERE)
from mutations import M  # noqa

ROOT = os.environ.get("AISVERIF_MUT_ROOT", "/tmp/aisverif-mut")
ALL = ["C%02d" % i for i in range(1, 21)]


def sh(cmd, env=None, cwd=None, timeout=3600):
    p = subprocess.run(cmd, env=env, cwd=cwd, stdout=subprocess.PIPE, stderr=subprocess.STDOUT, text=True, timeout=timeout)
    return p.returncode, p.stdout


def prepare_slot(k):
    slot = os.path.join(ROOT, "slot%d" % k)
    os.makedirs(slot, exist_ok=True)
    h = os.path.join(slot, "harness")
    if os.path.exists(h):
        shutil.rmtree(h)
    shutil.copytree(os.path.join(VERIF, "harness"), h, ignore=shutil.ignore_patterns("target"))
    ct = os.path.join(h, "Cargo.toml")
    s = open(ct).read().replace('path = "/repo"', 'path = "%s/repo"' % slot)
    open(ct, "w").write(s)
    # the lock file names the path dependency only by name: fine
    return slot


def sync_repo(slot):
    r = os.path.join(slot, "repo")
    os.makedirs(r, exist_ok=True)
    sh(["rsync", "-a", "--delete", "--exclude", "target", "--exclude", ".git", "/repo/", r + "/"])
    return r


def apply(repo, m):
    mid, props, f, old, new, note = m
    if f == "@patch":
        # a seeded change kept as a patch file (old = path of patch.diff)
        rc, out = sh(["patch", "-p1", "--no-backup-if-mismatch", "-i", old], cwd=repo)
        return rc == 0, out[-300:]
    p = os.path.join(repo, f)
    s = open(p).read()
    c = s.count(old)
    if c != 1:
        return False, "anchor occurs %d times" % c
    open(p, "w").write(s.replace(old, new))
    return True, ""


def run_one(slot_k, m, all_checks):
    mid, props, f, old, new, note = m
    slot = os.path.join(ROOT, "slot%d" % slot_k)
    repo = sync_repo(slot)
    res = {"id": mid, "targets": props, "file": f, "note": note, "applied": False}
    ok, why = apply(repo, m)
    if not ok:
        res["error"] = why
        return res
    res["applied"] = True
    # rsync restores files with their old mtimes, which cargo would take for "unchanged since
    # the last build" and reuse a stale artifact of the previous mutation: touch everything
    now = time.time()
    for dp, _dn, fns in os.walk(repo):
        for fnm in fns:
            os.utime(os.path.join(dp, fnm), (now, now))
    env = dict(os.environ)
    env["CARGO_NET_OFFLINE"] = "true"
    env["CARGO_TARGET_DIR"] = os.path.join(slot, "target")
    # repository suite in its three feature sets
    suite = {}
    for name, feat in (("std", []), ("alloc", ["--no-default-features", "--features", "alloc"]), ("none", ["--no-default-features"])):
        rc, out = sh(["cargo", "test", "--offline"] + feat, env=env, cwd=repo)
        mres = re.search(r"test result: (\w+)\. (\d+) passed; (\d+) failed", out)
        if "error: could not compile" in out or "error[E" in out:
            suite[name] = "does not compile"
        elif mres:
            suite[name] = "%s passed %s failed" % (mres.group(2), mres.group(3))
        else:
            suite[name] = "rc=%d" % rc
    res["suite"] = suite
    res["suite_passes"] = all(v == "59 passed 0 failed" for v in suite.values())
    if any(v == "does not compile" for v in suite.values()):
        res["compiles"] = False
        return res
    res["compiles"] = True
    env2 = dict(os.environ)
    env2.update({"AISVERIF_HARNESS": os.path.join(slot, "harness"), "AISVERIF_BUILD": os.path.join(slot, "build"),
                 "AISVERIF_WORK": os.path.join(slot, "work"), "AISVERIF_REPO": repo, "AISVERIF_OUT": os.path.join(slot, "out")})
    checks = ALL if all_checks else props
    fired = {}
    for c in checks:
        t0 = time.time()
        tier = os.environ.get("AISVERIF_MUT_TIER", "quick")
        rc, out = sh(["python3", os.path.join(VERIF, "checks", "run.py"), c, "--tier", tier], env=env2, cwd=VERIF, timeout=4 * 3600)
        sigs = re.findall(r"^  \[[^\]]*\] ([^:]+(?::[^ :]+)?)", out, re.M)
        fired[c] = {"rc": rc, "wall": round(time.time() - t0, 1), "signatures": sorted(set(sigs))[:6],
                    "known_finding_lines": out.count("KNOWN-FINDING:"), "first": (re.findall(r"^  \[.*", out, re.M) or [""])[0][:300]}
    res["checks"] = fired
    res["tier"] = os.environ.get("AISVERIF_MUT_TIER", "quick")
    res["caught_by"] = [c for c, v in fired.items() if v["rc"] == 1]
    res["targets_caught"] = [c for c in props if fired.get(c, {}).get("rc") == 1]
    return res


def main():
    args = sys.argv[1:]
    j = 3
    all_checks = False
    ids = []
    seeds = []
    i = 0
    while i < len(args):
        if args[i] == "-j":
            j = int(args[i + 1])
            i += 2
        elif args[i] == "--seed-dir":
            seeds.append(os.path.abspath(args[i + 1]))
            i += 2
        elif args[i] == "--all-checks":
            all_checks = True
            i += 1
        else:
            ids.append(args[i])
            i += 1
    todo = [m for m in M if not ids or m[0] in ids or any(m[0].startswith(p) for p in ids)]
    if seeds:
        todo = []
        for d in seeds:
            meta = json.load(open(os.path.join(d, "meta.json")))
            props = meta.get("property_ids") or [meta.get("property")]
            todo.append(("seed-" + os.path.basename(d.rstrip("/")), props, "@patch", os.path.join(d, "patch.diff"), "", meta.get("what_it_breaks", "")))
    os.makedirs(ROOT, exist_ok=True)
    os.makedirs(os.path.join(HERE, "results"), exist_ok=True)
    for k in range(j):
        prepare_slot(k)
    import queue
    slots = queue.Queue()
    for k in range(j):
        slots.put(k)

    def work(m):
        k = slots.get()
        try:
            r = run_one(k, m, all_checks)
        except Exception as e:  # noqa
            r = {"id": m[0], "error": repr(e)}
        finally:
            slots.put(k)
        with open(os.path.join(HERE, "results", m[0] + ".json"), "w") as f:
            json.dump(r, f, indent=1)
        print("%-38s suite=%s caught_by=%s %s" % (r["id"], r.get("suite_passes"), r.get("caught_by"), r.get("error", "")), flush=True)
        return r

    with cf.ThreadPoolExecutor(max_workers=j) as ex:
        list(ex.map(work, todo))
    if os.environ.get("KEEP_SCRATCH") != "1":
        shutil.rmtree(ROOT, ignore_errors=True)


if __name__ == "__main__":
    main()
