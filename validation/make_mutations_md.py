#!/usr/bin/env python3
"""Renders validation/results/*.json (written by run_mutations.py) as validation/mutations.md."""
import json
import os
import sys

HERE = os.path.dirname(os.path.abspath(__file__))
sys.path.insert(0, HERE)
from mutations import M  # noqa

EQUIV = {
    'c03-carry-ge-2': 'equivalent: bit offsets are only 0, 6, 4, 2, so `> 3` and `> 2` select the same cases',
    'c03-min-dropped': 'equivalent rewrite of the same expression (kept as a silence test)',
    'c09-type-22-as-position': 'equivalent: `parse_radio` rejects type 22, the result is still an error',
    'c14-type16-48': 'equivalent at byte granularity: no buffer length leaves 48..51 bits after the first station',
    'c19-correct': 'the correct implementation: the KNOWN-FINDING line disappears and the check passes silently (as required); the repository suite fails because four tests pin 17',
    'c20-exit-code-on-error': 'placeholder (declares an unused variable): behaviour unchanged',
}
out = ["# Monitor validation: mutations of DESIGN.md section 5 against the quick checks\n",
       "Produced by `python3 validation/run_mutations.py -j 3` (scratch copies of /repo under /tmp, removed afterwards).",
       "*suite*: do the repository's 59 tests still pass in std / alloc / none with the mutation (mutations that fail the suite",
       "are kept: they still show that the monitor fires; the realistic ones are those with `pass`).",
       "*fired*: targeted quick checks that exited 1 with a fresh VIOLATION. A first full run was discarded (stale build",
       "artifacts, DESIGN 10.6).\n",
       "| mutation | targets | note | suite | fired | first signature |", "|---|---|---|---|---|---|"]
tot = caught = real = realcaught = 0
for m in M:
    f = os.path.join(HERE, 'results', m[0] + '.json')
    if not os.path.exists(f):
        continue
    r = json.load(open(f))
    tot += 1
    if not r.get('compiles', True) or r.get('error'):
        out.append("| %s | %s | %s | does not compile / not applicable | - | - |" % (m[0], ', '.join(m[1]), m[5]))
        continue
    suite = 'pass' if r.get('suite_passes') else 'fails (' + '; '.join("%s: %s" % (k, v) for k, v in r['suite'].items() if v != '59 passed 0 failed') + ')'
    fired = r.get('caught_by') or []
    sig = ''
    for c in fired:
        sig = (r['checks'][c]['signatures'] or [''])[0]
        break
    note = m[5]
    if m[0] in EQUIV:
        note += ' — **' + EQUIV[m[0]] + '**'
    if fired:
        caught += 1
    if r.get('suite_passes'):
        real += 1
        if fired:
            realcaught += 1
    out.append("| %s | %s | %s | %s | %s | %s |" % (m[0], ', '.join(m[1]), note.replace('|', '/'), suite, ', '.join(fired) or 'none', sig.replace('|', '/')))
out.append("\n%d mutations with results; %d fired at least one targeted check. Of the %d that pass the repository suite, %d fired;" % (tot, caught, real, realcaught))
out.append("the ones that did not are the equivalent mutants and the placeholder marked above. Misses of the first valid run")
out.append("that led to stronger checks: `c08-terminating-star-dropped`, `c11-year-9999`, `c17-id-mismatch-adopts-id`,")
out.append("`c17-static-scratch`, `c20-f8-reverted` (DESIGN 10.4); all fire now. `c17-number-before-id-check` was written as an")
out.append("equivalent rewrite; C17 fired on it and was right (the early return skips the restore).\n")
open(os.path.join(HERE, 'mutations.md'), 'w').write('\n'.join(out))
print(out[-6])
