#!/bin/sh
# ingest_seed.sh <scratch worktree> <seed id>: copy a sub-agent's seed/ directory into
# /verif/seeded/<id>, confirm it independently (verify_seed.py) and run the targeted quick
# check as it is at this moment against a scratch copy with the patch ("before" result).
set -e
W="$1"; ID="$2"
V="$(cd "$(dirname "$0")/.." && pwd)"
mkdir -p "$V/seeded/$ID"
cp "$W"/seed/patch.diff "$W"/seed/meta.json "$V/seeded/$ID/"
for f in demo.rs demo.sh; do [ -f "$W/seed/$f" ] && cp "$W/seed/$f" "$V/seeded/$ID/"; done
python3 "$V/validation/verify_seed.py" "$V/seeded/$ID" | tail -3
AISVERIF_MUT_ROOT=/tmp/aisverif-seedrun-$ID python3 "$V/validation/run_mutations.py" -j 1 --seed-dir "$V/seeded/$ID" | tail -1
cp "$V/validation/results/seed-$ID.json" "$V/validation/results-before/seed-$ID.json"
