#!/usr/bin/env python3
"""Confirm a seeded change independently of the agent that wrote it, in a scratch copy of /repo:
the patch applies to the pinned HEAD, the repository's 59 tests still pass in all three feature
sets with it, the demonstration fails with it and passes without it.

    python3 validation/verify_seed.py /verif/seeded/<id>
"""
import json
import os
import re
import shutil
import subprocess
import sys


def sh(cmd, cwd=None, env=None):
    p = subprocess.run(cmd, cwd=cwd, env=env, stdout=subprocess.PIPE, stderr=subprocess.STDOUT, text=True)
    return p.returncode, p.stdout


def suite(repo, env, extra):
    rc, out = sh(["cargo", "test", "--offline", "--lib"] + extra, cwd=repo, env=env)
    m = re.search(r"test result: \w+\. (\d+) passed; (\d+) failed", out)
    return (int(m.group(1)), int(m.group(2))) if m else (-1, -1)


def demo(repo, env, extra, name):
    rc, out = sh(["cargo", "test", "--offline", "--test", name] + extra, cwd=repo, env=env)
    m = re.search(r"test result: \w+\. (\d+) passed; (\d+) failed", out)
    if "could not compile" in out:
        return "does-not-compile"
    return "pass" if (m and int(m.group(2)) == 0 and rc == 0) else "FAIL"


def main():
    d = os.path.abspath(sys.argv[1].rstrip("/"))
    sid = os.path.basename(d)
    root = "/tmp/aisverif-seedcheck-" + sid
    shutil.rmtree(root, ignore_errors=True)
    repo = os.path.join(root, "repo")
    os.makedirs(repo)
    sh(["rsync", "-a", "--exclude", "target", "--exclude", ".git", "/repo/", repo + "/"])
    env = dict(os.environ)
    env["CARGO_NET_OFFLINE"] = "true"
    env["CARGO_TARGET_DIR"] = os.path.join(root, "target")
    feats = {"std": [], "alloc": ["--no-default-features", "--features", "alloc"], "none": ["--no-default-features"]}
    res = {"seed": sid}
    is_sh = os.path.exists(os.path.join(d, "demo.sh"))
    if not is_sh:
        os.makedirs(os.path.join(repo, "tests"), exist_ok=True)
        shutil.copy(os.path.join(d, "demo.rs"), os.path.join(repo, "tests", "seed_demo.rs"))
    # without the patch
    res["demo_without_patch"] = {}
    for k, f in feats.items():
        if is_sh:
            continue
        res["demo_without_patch"][k] = demo(repo, env, f, "seed_demo")
    if is_sh:
        sh(["cargo", "build", "--offline"], cwd=repo, env=env)
        rc, out = sh(["sh", os.path.join(d, "demo.sh"), os.path.join(root, "target", "debug", "aisparser")], cwd=repo, env=env)
        res["demo_without_patch"]["cli"] = "pass" if rc == 0 else "FAIL"
    rc, out = sh(["patch", "-p1", "--no-backup-if-mismatch", "-i", os.path.join(d, "patch.diff")], cwd=repo)
    res["patch_applies"] = rc == 0
    if rc != 0:
        res["patch_output"] = out[-400:]
    res["suite_with_patch"] = {k: "%d passed %d failed" % suite(repo, env, f) for k, f in feats.items()}
    res["demo_with_patch"] = {}
    for k, f in feats.items():
        if is_sh:
            continue
        res["demo_with_patch"][k] = demo(repo, env, f, "seed_demo")
    if is_sh:
        sh(["cargo", "build", "--offline"], cwd=repo, env=env)
        rc, out = sh(["sh", os.path.join(d, "demo.sh"), os.path.join(root, "target", "debug", "aisparser")], cwd=repo, env=env)
        res["demo_with_patch"]["cli"] = "pass" if rc == 0 else "FAIL"
    res["confirmed"] = (res["patch_applies"] and all(v == "59 passed 0 failed" for v in res["suite_with_patch"].values())
                        and any(v == "FAIL" for v in res["demo_with_patch"].values())
                        and all(v in ("pass", "does-not-compile") for v in res["demo_without_patch"].values())
                        and any(v == "pass" for v in res["demo_without_patch"].values()))
    print(json.dumps(res, indent=1))
    with open(os.path.join(d, "verified.json"), "w") as f:
        json.dump(res, f, indent=1)
    shutil.rmtree(root, ignore_errors=True)
    return 0 if res["confirmed"] else 1


if __name__ == "__main__":
    sys.exit(main())
