//! C12 demo: the public code -> value conversion `ShipType::from(u8)` must name every
//! transmitted code 1..=99 exactly as the message decoders (`ShipType::parse`) do.
use ais::messages::types::ShipType;
use ais::messages::{parse, unarmor, AisMessage};

#[test]
fn from_code_agrees_with_decoder_for_every_code_1_to_99() {
    for code in 1u8..=99 {
        let decoded = ShipType::parse(code).expect("codes 1..=99 are all named");
        assert_eq!(ShipType::from(code), decoded, "ShipType::from({})", code);
        assert_eq!(u8::from(ShipType::from(code)), code);
    }
}

#[test]
fn code_99_is_other_no_additional_information() {
    assert_eq!(
        ShipType::from(99),
        ShipType::OtherNoAdditionalInformation
    );
    // the same code as carried by a type 24 part B report
    // type 24, mmsi 1, part B, ship type 99, everything else zero: 168 bits = 28 characters
    let mut bits = [0u8; 21];
    bits[0] = 24 << 2;
    bits[4] = 0b0000_0101; // mmsi = 1 (bits 8..38), part number = 1 (bits 38..40)
    bits[5] = 99;
    let armored: Vec<u8> = (0..28)
        .map(|i| {
            let v = (0..6).fold(0u8, |acc, b| {
                let bit = i * 6 + b;
                (acc << 1) | ((bits[bit / 8] >> (7 - bit % 8)) & 1)
            });
            if v < 40 { v + 48 } else { v + 56 }
        })
        .collect();
    let raw = unarmor(&armored, 0).unwrap();
    match parse(&raw).unwrap() {
        AisMessage::StaticDataReport(report) => match report.message_part {
            ais::messages::static_data_report::MessagePart::PartB { ship_type, .. } => {
                assert_eq!(ship_type, Some(ShipType::from(99)));
            }
            other => panic!("unexpected part {:?}", other),
        },
        other => panic!("unexpected message {:?}", other),
    }
}
