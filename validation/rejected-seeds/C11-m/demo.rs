//! C11 demo: 181 deg / 91 deg in the 18/17-bit (1/10 minute) form must decode to None
//! in the long-range layout, whatever the other fields (here: the type field) hold.
use ais::messages::long_range_ais_broadcast::LongRangeAisBroadcastMessage;
use ais::messages::AisMessageType;

/// Packs the 96-bit long-range layout.
fn build(message_type: u8, lon: i32, lat: i32) -> [u8; 12] {
    let fields: [(u64, u32); 12] = [
        (message_type as u64, 6),
        (0, 2),
        (123_456_789, 30),
        (0, 1),
        (0, 1),
        (0, 4),
        ((lon as u64) & 0x3ffff, 18),
        ((lat as u64) & 0x1ffff, 17),
        (12, 6),
        (90, 9),
        (0, 1),
        (0, 1),
    ];
    let mut acc: u128 = 0;
    for (v, w) in fields {
        acc = (acc << w) | v as u128;
    }
    let mut out = [0u8; 12];
    for (i, b) in out.iter_mut().enumerate() {
        *b = (acc >> (8 * (11 - i))) as u8;
    }
    out
}

#[test]
fn not_available_position_is_absent_for_every_type_field_value() {
    for message_type in 0..64u8 {
        let m = LongRangeAisBroadcastMessage::parse(&build(message_type, 108_600, 54_600)).unwrap();
        assert_eq!(m.message_type, message_type);
        assert_eq!(m.longitude, None, "type field {}", message_type);
        assert_eq!(m.latitude, None, "type field {}", message_type);
        // neighbours stay present
        let m = LongRangeAisBroadcastMessage::parse(&build(message_type, 108_599, 54_601)).unwrap();
        assert!(m.longitude.is_some() && m.latitude.is_some());
    }
}
