//! C08 demo: a sentence preceded by an *empty* tag block (`\\`, i.e. backslash
//! immediately followed by backslash) is a well-formed shape: optional tag block
//! (backslash ... backslash), start delimiter, fields, '*', checksum.
//! It must be accepted exactly like the same sentence without a tag block or with
//! a non-empty one.  Uses only the public API; compiles in all feature sets.
use ais::{AisFragments, AisParser};

const PLAIN: &[u8] = b"!AIVDM,1,1,,A,E>kb9I99S@0`8@:9ah;0TahI7@@;V4=v:nv;h00003vP100,0*7A";

fn with_tag(tag_content: &[u8], sentence: &[u8]) -> ([u8; 160], usize) {
    let mut buf = [0u8; 160];
    let mut n = 0;
    buf[n] = b'\\';
    n += 1;
    buf[n..n + tag_content.len()].copy_from_slice(tag_content);
    n += tag_content.len();
    buf[n] = b'\\';
    n += 1;
    buf[n..n + sentence.len()].copy_from_slice(sentence);
    n += sentence.len();
    (buf, n)
}

fn accepted_complete(line: &[u8]) -> bool {
    let mut parser = AisParser::new();
    matches!(parser.parse(line, false), Ok(AisFragments::Complete(_)))
}

#[test]
fn non_empty_tag_block_is_accepted() {
    let (buf, n) = with_tag(b"s:2573345,c:1696241893*00", PLAIN);
    assert!(accepted_complete(PLAIN));
    assert!(accepted_complete(&buf[..n]));
    let (buf, n) = with_tag(b"x", PLAIN);
    assert!(accepted_complete(&buf[..n]));
}

#[test]
fn empty_tag_block_is_accepted() {
    let (buf, n) = with_tag(b"", PLAIN);
    assert_eq!(&buf[..3], b"\\\\!");
    let mut parser = AisParser::new();
    let result = parser.parse(&buf[..n], true);
    match result {
        Ok(AisFragments::Complete(sentence)) => {
            assert_eq!(sentence.num_fragments, 1);
            assert_eq!(sentence.fragment_number, 1);
            assert_eq!(sentence.channel, Some('A'));
            assert_eq!(sentence.fill_bit_count, 0);
            assert_eq!(&sentence.data[..], &PLAIN[14..61]);
            assert!(sentence.message.is_some());
        }
        other => panic!("empty tag block + valid sentence not accepted: {:?}", other),
    }
}

#[test]
fn empty_tag_block_before_fragments_is_accepted() {
    const F1: &[u8] =
        b"!AIVDM,2,1,1,B,53`soB8000010KSOW<0P4eDp4l6000000000000U0p<24t@P05H3S833CDP00000,0*78";
    const F2: &[u8] = b"$AIVDM,2,2,1,B,0000000,2*26";
    let mut parser = AisParser::new();
    let (b1, n1) = with_tag(b"", F1);
    let (b2, n2) = with_tag(b"", F2);
    assert!(matches!(
        parser.parse(&b1[..n1], false),
        Ok(AisFragments::Incomplete(_))
    ));
    assert!(matches!(
        parser.parse(&b2[..n2], false),
        Ok(AisFragments::Complete(_))
    ));
}
