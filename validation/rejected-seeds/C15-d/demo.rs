//! C15 demo: binary payloads of types 6, 8 and 17 must come back bit-exactly.
//!
//! Manifests only when BOTH the `std` and the `alloc` feature are enabled
//! (what cargo's feature unification produces when one dependent asks for the
//! defaults and another for `alloc`, or `--all-features`):
//!
//!     cargo test --offline --features alloc --test seed_demo
use ais::messages::{self, AisMessage};
use ais::{AisFragments, AisParser};

/// Armors a bit vector (padded with zero bits to a multiple of 6)
fn armor(bits: &[u8]) -> (Vec<u8>, u8) {
    let fill = (6 - bits.len() % 6) % 6;
    let mut padded = bits.to_vec();
    padded.extend(std::iter::repeat(0).take(fill));
    let chars = padded
        .chunks(6)
        .map(|c| {
            let v = c.iter().fold(0u8, |acc, b| (acc << 1) | b);
            if v < 40 {
                v + 48
            } else {
                v + 56
            }
        })
        .collect();
    (chars, fill as u8)
}

fn push(bits: &mut Vec<u8>, value: u64, width: usize) {
    for i in (0..width).rev() {
        bits.push(((value >> i) & 1) as u8);
    }
}

fn payload_bytes(len: usize, salt: u8) -> Vec<u8> {
    (0..len)
        .map(|i| (i as u8).wrapping_mul(37).wrapping_add(salt) | 1)
        .collect()
}

fn decode(bits: &[u8]) -> AisMessage {
    let (chars, fill) = armor(bits);
    let unarmored = messages::unarmor(&chars, fill as usize).unwrap();
    messages::parse(&unarmored).unwrap()
}

#[test]
fn type8_payload_is_passed_through() {
    for len in [1usize, 2, 7, 38, 119] {
        let payload = payload_bytes(len, 3);
        let mut bits = Vec::new();
        push(&mut bits, 8, 6);
        push(&mut bits, 1, 2);
        push(&mut bits, 2655619, 30);
        push(&mut bits, 0, 2);
        push(&mut bits, 1, 10);
        push(&mut bits, 31, 6);
        for b in &payload {
            push(&mut bits, *b as u64, 8);
        }
        match decode(&bits) {
            AisMessage::BinaryBroadcastMessage(m) => {
                assert_eq!(m.dac, 1);
                assert_eq!(m.fid, 31);
                // the unarmored length may carry one byte of armoring padding
                assert!(m.data.len() <= len + 1, "type 8: {} bytes in, {} out", len, m.data.len());
                assert_eq!(&m.data[..len], &payload[..]);
            }
            other => panic!("unexpected {:?}", other),
        }
    }
}

#[test]
fn type6_payload_is_passed_through() {
    for len in [1usize, 7, 115] {
        let payload = payload_bytes(len, 5);
        let mut bits = Vec::new();
        push(&mut bits, 6, 6);
        push(&mut bits, 0, 2);
        push(&mut bits, 150834090, 30);
        push(&mut bits, 3, 2);
        push(&mut bits, 313240222, 30);
        push(&mut bits, 0, 1);
        push(&mut bits, 0, 1);
        push(&mut bits, 669, 10);
        push(&mut bits, 11, 6);
        for b in &payload {
            push(&mut bits, *b as u64, 8);
        }
        match decode(&bits) {
            AisMessage::BinaryAddressedMessage(m) => {
                assert!(m.data.len() <= len + 1, "type 6: {} bytes in, {} out", len, m.data.len());
                assert_eq!(&m.data[..len], &payload[..]);
            }
            other => panic!("unexpected {:?}", other),
        }
    }
}

#[test]
fn type17_correction_data_is_passed_through() {
    for len in [3usize, 42, 87] {
        let payload = payload_bytes(len, 9);
        let mut bits = Vec::new();
        push(&mut bits, 17, 6);
        push(&mut bits, 0, 2);
        push(&mut bits, 2734450, 30);
        push(&mut bits, 0, 2);
        push(&mut bits, 17478, 18);
        push(&mut bits, 35992, 17);
        push(&mut bits, 0, 5);
        push(&mut bits, 1, 6);
        push(&mut bits, 700, 10);
        push(&mut bits, 2776, 13);
        push(&mut bits, 2, 3);
        push(&mut bits, (len / 3) as u64, 5);
        push(&mut bits, 0, 3);
        for b in &payload {
            push(&mut bits, *b as u64, 8);
        }
        match decode(&bits) {
            AisMessage::DgnssBroadcastBinaryMessage(m) => {
                assert_eq!(m.payload.z_count, 2776);
                assert!(
                    m.payload.data.len() <= len + 1,
                    "type 17: {} bytes in, {} out",
                    len,
                    m.payload.data.len()
                );
                assert_eq!(&m.payload.data[..len], &payload[..]);
            }
            other => panic!("unexpected {:?}", other),
        }
    }
}

#[test]
fn type6_sentence_from_the_crate_tests() {
    // same sentence payload as binary_addressed::tests::test_type6_example_1
    let body = "AIVDM,1,1,,A,6B?n;be:cbapalgc;i6?Ow4,2";
    let checksum = body.bytes().fold(0u8, |a, b| a ^ b);
    let line = format!("!{}*{:02X}", body, checksum);
    let mut parser = AisParser::new();
    match parser.parse(line.as_bytes(), true).unwrap() {
        AisFragments::Complete(sentence) => match sentence.message {
            Some(AisMessage::BinaryAddressedMessage(m)) => {
                assert_eq!(&m.data[..], &[0xeb, 0x2f, 0x11, 0x8f, 0x7f, 0xf1, 0x00]);
            }
            other => panic!("unexpected {:?}", other),
        },
        other => panic!("unexpected {:?}", other),
    }
}
