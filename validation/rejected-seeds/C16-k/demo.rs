// C16 demo: the communication state of a position report must be decoded from bits
// 149..167 whatever follows the 168-bit message. Buffers of 2^29+19 / 2^29+20 bytes
// (2^32+152 / 2^32+160 bits, 512 MiB) are the ones that go wrong with the seed.
use ais::messages::radio_status::{RadioStatus, SubMessage, SyncState};
use ais::messages::{parse, unarmor, AisMessage};

fn long_copy(payload: &[u8], len: usize) -> Vec<u8> {
    let head = unarmor(payload, 0).unwrap();
    let mut buf = vec![0u8; len]; // zero pages, cheap
    buf[..head.len()].copy_from_slice(&head);
    buf
}

fn check_type1(buf: &[u8]) {
    match parse(buf) {
        Ok(AisMessage::PositionReport(p)) => match p.radio_status {
            RadioStatus::Sotdma(s) => {
                assert_eq!(s.sync_state, SyncState::UtcDirect);
                assert_eq!(s.slot_timeout, 2);
                assert_eq!(s.sub_message, SubMessage::SlotNumber(506));
            }
            other => panic!("expected SOTDMA, got {:?}", other),
        },
        Ok(_) => panic!("expected a position report"),
        Err(_) => panic!("position report of {} bytes was rejected", buf.len()),
    }
}

fn check_type18(buf: &[u8]) {
    match parse(buf) {
        Ok(AisMessage::StandardClassBPositionReport(p)) => match p.radio_status {
            RadioStatus::Itdma(s) => {
                assert_eq!(s.sync_state, SyncState::NumberOfReceivedStations);
                assert_eq!(s.slot_increment, 0);
            }
            other => panic!("expected ITDMA, got {:?}", other),
        },
        Ok(_) => panic!("expected a class B report"),
        Err(_) => panic!("class B report of {} bytes was rejected", buf.len()),
    }
}

const T1: &[u8] = b"16SteH0P00Jt63hHaa6SagvJ087r";
const T18: &[u8] = b"B6:hQDh0029Pt<4TAS003h6TSP00";

#[test]
fn comm_state_is_read_whatever_the_buffer_length() {
    for len in [21usize, 22, 4096 + 19, (1 << 16) + 19, (1 << 29) + 19, (1 << 29) + 20] {
        let buf = long_copy(T1, len);
        check_type1(&buf);
        drop(buf);
        let buf = long_copy(T18, len);
        check_type18(&buf);
    }
}
