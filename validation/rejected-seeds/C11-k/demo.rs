// C11 demo: a slot offset of 0 in an interrogation must be reported as absent,
// also for a request that follows the second station's request in an over-long
// (30 character / 180 bit) type 15 message.
use ais::messages::interrogation::Message;
use ais::messages::{self, AisMessage};
use ais::{AisFragments, AisParser};

fn push(bits: &mut Vec<u8>, value: u32, width: u32) {
    for i in (0..width).rev() {
        bits.push(((value >> i) & 1) as u8);
    }
}

/// 180-bit type 15 payload whose fourth request has type 5 and the given offset
fn payload(last_offset: u32) -> Vec<u8> {
    let mut b = Vec::new();
    push(&mut b, 15, 6);
    push(&mut b, 0, 2);
    push(&mut b, 3669981, 30);
    push(&mut b, 0, 2);
    push(&mut b, 230682000, 30); // station 1
    push(&mut b, 5, 6);
    push(&mut b, 17, 12);
    push(&mut b, 0, 2);
    push(&mut b, 3, 6);
    push(&mut b, 0, 12);
    push(&mut b, 0, 2);
    push(&mut b, 431008813, 30); // station 2
    push(&mut b, 24, 6);
    push(&mut b, 0, 12);
    push(&mut b, 0, 2);
    push(&mut b, 5, 6); // request after the second station's request
    push(&mut b, last_offset, 12);
    push(&mut b, 0, 2);
    assert_eq!(b.len(), 180);
    b.chunks(6)
        .map(|c| {
            let v = c.iter().fold(0u8, |a, &x| (a << 1) | x);
            if v < 40 { v + 48 } else { v + 56 }
        })
        .collect()
}

fn check(msg: &AisMessage, expected_last: Option<u16>) {
    let i = match msg {
        AisMessage::Interrogation(i) => i,
        other => panic!("unexpected {:?}", other),
    };
    assert_eq!(i.stations.len(), 2);
    let s1 = &i.stations[0];
    assert_eq!(s1.messages[0], Message { message_type: 5, slot_offset: Some(17) });
    assert_eq!(s1.messages[1], Message { message_type: 3, slot_offset: None });
    let s2 = &i.stations[1];
    assert_eq!(s2.mmsi, 431008813);
    assert_eq!(s2.messages[0], Message { message_type: 24, slot_offset: None });
    assert_eq!(s2.messages.len(), 2);
    assert_eq!(s2.messages[1], Message { message_type: 5, slot_offset: expected_last });
}

#[test]
fn slot_offset_zero_is_absent_in_every_request() {
    for (offset, expected) in [(0u32, None), (1, Some(1u16)), (2249, Some(2249))] {
        let armored = payload(offset);
        // through messages::parse
        let raw = messages::unarmor(&armored, 0).unwrap();
        check(&messages::parse(&raw).unwrap(), expected);
        // through the sentence parser
        let mut body = b"AIVDM,1,1,,A,".to_vec();
        body.extend_from_slice(&armored);
        body.extend_from_slice(b",0");
        let sum = body.iter().fold(0u8, |a, &x| a ^ x);
        let mut line = b"!".to_vec();
        line.extend_from_slice(&body);
        line.extend_from_slice(format!("*{:02X}", sum).as_bytes());
        let mut parser = AisParser::new();
        match parser.parse(&line, true).unwrap() {
            AisFragments::Complete(s) => check(s.message.as_ref().unwrap(), expected),
            other => panic!("unexpected {:?}", other),
        }
    }
}
