//! C02 demo: the checksum covers every byte between the start delimiter and the
//! FIRST '*'.  The channel and payload fields may themselves contain a '*'.
use ais::errors::Error;
use ais::{AisFragments, AisParser};

fn xor(bytes: &[u8]) -> u8 {
    bytes.iter().fold(0, |a, b| a ^ b)
}

/// Builds "!<body>*<hex>" where the checksum is either the correct one (XOR up
/// to the first '*' of the body, or the whole body if none) xor `damage`.
fn line(body: &[u8], damage: u8, out: &mut [u8; 128]) -> (usize, u8, u8) {
    let first_star = body.iter().position(|&b| b == b'*').unwrap_or(body.len());
    let good = xor(&body[..first_star]);
    let sent = good ^ damage;
    const HEX: &[u8; 16] = b"0123456789ABCDEF";
    out[0] = b'!';
    out[1..1 + body.len()].copy_from_slice(body);
    let n = 1 + body.len();
    out[n] = b'*';
    out[n + 1] = HEX[(sent >> 4) as usize];
    out[n + 2] = HEX[(sent & 15) as usize];
    (n + 3, sent, good)
}

const BODIES: [&[u8]; 3] = [
    // '*' in the channel field, preceded by '+'
    b"AIVDM,1,1,,+*,15M67FC000G?ufbE`LBVl0p<0000,0",
    // '*' in the payload, preceded by '+'
    b"AIVDM,1,1,,A,1+*67FC000G?ufbE`LBVl0p<0000,0",
    // first fragment of a group
    b"AIVDM,2,1,7,+*,15M67FC000G?ufbE`LBVl0p<0000,0",
];

#[test]
fn correct_checksum_is_accepted() {
    for body in BODIES {
        let mut buf = [0u8; 128];
        let (n, _, _) = line(body, 0, &mut buf);
        let mut parser = AisParser::new();
        let res = parser.parse(&buf[..n], false);
        assert!(
            matches!(res, Ok(AisFragments::Complete(_)) | Ok(AisFragments::Incomplete(_))),
            "correct checksum rejected: {:?}",
            res
        );
    }
}

#[test]
fn wrong_checksum_is_never_accepted() {
    for body in BODIES {
        for damage in 1..=255u8 {
            let mut buf = [0u8; 128];
            let (n, sent, good) = line(body, damage, &mut buf);
            let mut parser = AisParser::new();
            match parser.parse(&buf[..n], false) {
                Err(Error::Checksum { expected, found }) => {
                    assert_eq!((expected, found), (sent, good));
                }
                other => panic!("wrong checksum {:02X} (computed {:02X}): {:?}", sent, good, other),
            }
        }
    }
}
