// C14: a two-station interrogation whose second block is truncated after the request
// type (150 payload bits -> 19 bytes) must still report both stations, also when the
// first station's second request slot is unused (all zero), the normal real-world case.
use ais::messages::{parse, unarmor, AisMessage};
use ais::{AisFragments, AisParser};

fn armor(fields: &[(u32, usize)], chars: usize) -> Vec<u8> {
    let mut bits: Vec<u8> = Vec::new();
    for &(v, w) in fields {
        for i in (0..w).rev() {
            bits.push(((v >> i) & 1) as u8);
        }
    }
    bits.resize(chars * 6, 0);
    bits.chunks(6)
        .map(|c| {
            let v = c.iter().fold(0u8, |a, b| (a << 1) | b);
            if v < 40 { v + 48 } else { v + 56 }
        })
        .collect()
}

fn payload(type1_2: u32, off1_2: u32) -> Vec<u8> {
    armor(
        &[
            (15, 6), (0, 2), (366123456, 30), (0, 2),
            (230682000, 30), (5, 6), (0, 12), (0, 2),
            (type1_2, 6), (off1_2, 12), (0, 2),
            (257855600, 30), (3, 6),
        ],
        25,
    )
}

fn check(msg: AisMessage, requests1: usize) {
    match msg {
        AisMessage::Interrogation(i) => {
            assert_eq!(i.stations[0].mmsi, 230682000);
            assert_eq!(i.stations[0].messages.len(), requests1);
            assert_eq!(i.stations.len(), 2, "second station lost");
            assert_eq!(i.stations[1].mmsi, 257855600);
            assert_eq!(i.stations[1].messages.len(), 1);
            assert_eq!(i.stations[1].messages[0].message_type, 3);
            assert_eq!(i.stations[1].messages[0].slot_offset, None);
        }
        other => panic!("unexpected {:?}", other),
    }
}

#[test]
fn control_first_block_fully_used() {
    let p = payload(24, 7);
    let raw = unarmor(&p, 4).unwrap();
    assert_eq!(raw.len(), 19);
    check(parse(&raw).unwrap(), 2);
}

#[test]
fn first_block_half_used_direct() {
    let p = payload(0, 0);
    let raw = unarmor(&p, 4).unwrap();
    assert_eq!(raw.len(), 19);
    check(parse(&raw).unwrap(), 1);
}

#[test]
fn first_block_half_used_line() {
    let mut body = b"AIVDM,1,1,,A,".to_vec();
    body.extend_from_slice(&payload(0, 0));
    body.extend_from_slice(b",4");
    let cs = body.iter().fold(0u8, |a, b| a ^ b);
    let line = format!("!{}*{:02X}", String::from_utf8(body).unwrap(), cs);
    let mut parser = AisParser::new();
    match parser.parse(line.as_bytes(), true).unwrap() {
        AisFragments::Complete(s) => check(s.message.unwrap(), 1),
        _ => panic!("incomplete"),
    }
}
