// C19: the type reported on a sentence is (first payload byte >> 2) of THAT sentence,
// also for the fragment that completes a group.
use ais::{AisFragments, AisParser};

fn line(body: &[u8]) -> Vec<u8> {
    let cs = body.iter().fold(0u8, |a, b| a ^ b);
    let mut l = vec![b'!'];
    l.extend_from_slice(body);
    l.extend_from_slice(format!("*{:02X}", cs).as_bytes());
    l
}

#[test]
fn closing_fragment_reports_its_own_type() {
    for first in 0u8..=255 {
        if first == b',' || first == b'*' {
            continue;
        }
        let mut parser = AisParser::new();
        let opener = line(b"AIVDM,2,1,7,B,53`soB8000010KSOW<0P4eDp4l6000000000,0");
        match parser.parse(&opener, false).unwrap() {
            AisFragments::Incomplete(s) => assert_eq!(s.message_type, b'5' >> 2),
            other => panic!("unexpected {:?}", other),
        }
        let mut body = b"AIVDM,2,2,7,B,".to_vec();
        body.push(first);
        body.extend_from_slice(b"000000,2");
        match parser.parse(&line(&body), false).unwrap() {
            AisFragments::Complete(s) => {
                assert_eq!(s.message_type, first >> 2, "first payload byte {:#04x}", first)
            }
            other => panic!("unexpected {:?}", other),
        }
    }
}
