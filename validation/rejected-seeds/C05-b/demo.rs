//! C05 demo: a rejected line arriving between the fragments of an in-order group
//! must not disturb the reassembly of that group.
//!
//! The disturbing line used here declares a fragment count of 0 with fragment
//! number 1 ("!AIVDM,0,1,..."). While a group is pending (at least one fragment
//! stored) such a line is out of sequence and must be rejected, leaving the
//! pending group untouched.

use ais::{AisFragments, AisParser};

const PAYLOAD: &str = "53`soB8000010KSOW<0P4eDp4l6000000000000U0p<24t@P05H3S833CDP000000000000";
const FILL: u8 = 2;

fn line(count: u8, number: u8, id: &str, payload: &str, fill: u8) -> Vec<u8> {
    let body = format!("AIVDM,{},{},{},B,{},{}", count, number, id, payload, fill);
    let checksum = body.bytes().fold(0u8, |acc, b| acc ^ b);
    format!("!{}*{:02X}", body, checksum).into_bytes()
}

fn run(interloper: Option<Vec<u8>>, id: &str) {
    // reference: the same payload, unfragmented, on a fresh parser
    let mut reference_parser = AisParser::new();
    let reference = match reference_parser
        .parse(&line(1, 1, "", PAYLOAD, FILL), true)
        .expect("unfragmented reference must parse")
    {
        AisFragments::Complete(s) => s,
        other => panic!("reference not complete: {:?}", other),
    };

    let (a, rest) = PAYLOAD.split_at(20);
    let (b, c) = rest.split_at(31);

    let mut parser = AisParser::new();
    match parser.parse(&line(3, 1, id, a, 0), true).expect("fragment 1") {
        AisFragments::Incomplete(s) => assert_eq!(&s.data[..], a.as_bytes()),
        other => panic!("fragment 1 should be incomplete: {:?}", other),
    }
    match parser.parse(&line(3, 2, id, b, 0), true).expect("fragment 2") {
        AisFragments::Incomplete(s) => assert_eq!(&s.data[..], b.as_bytes()),
        other => panic!("fragment 2 should be incomplete: {:?}", other),
    }

    if let Some(l) = interloper {
        let r = parser.parse(&l, true);
        assert!(
            r.is_err(),
            "out-of-sequence line between fragments must be rejected, got {:?}",
            r
        );
    }

    let last = parser
        .parse(&line(3, 3, id, c, FILL), true)
        .expect("last fragment of an in-order group must be accepted");
    match last {
        AisFragments::Complete(s) => {
            assert_eq!(&s.data[..], PAYLOAD.as_bytes());
            assert_eq!(s.message, reference.message);
            assert!(s.message.is_some());
        }
        other => panic!("last fragment should complete the group: {:?}", other),
    }
}

#[test]
fn plain_group_reassembles() {
    run(None, "4");
    run(None, "");
}

#[test]
fn zero_count_line_with_same_id_does_not_disturb_pending_group() {
    run(Some(line(0, 1, "4", "15M67FC000G?ufbE`FepT@3n00Sa", 0)), "4");
}

#[test]
fn zero_count_line_without_id_does_not_disturb_pending_group() {
    run(Some(line(0, 1, "", "15M67FC000G?ufbE`FepT@3n00Sa", 0)), "");
}

#[test]
fn zero_count_line_with_other_id_does_not_disturb_pending_group() {
    run(Some(line(0, 1, "7", "15M67FC000G?ufbE`FepT@3n00Sa", 0)), "4");
}
