//! C12 demo: the DTE code of a (truncated) type 5 message must map 0 -> Ready,
//! whatever the destination text is.
use ais::messages::types::{Dte, ShipType};
use ais::messages::{parse, unarmor, AisMessage};
use ais::{AisFragments, AisParser};

// First 50 characters of a real type 5 message (everything up to the draught).
const HEAD: &str = "53`soB8000010KSOW<0P4eDp4l6000000000000U0p<24t@P05";

fn dte_of(payload: &str) -> (Dte, String, Option<ShipType>) {
    let bits = unarmor(payload.as_bytes(), 0).unwrap();
    match parse(bits.as_ref()).unwrap() {
        AisMessage::StaticAndVoyageRelatedData(m) => {
            (m.dte, m.destination.as_str().to_owned(), m.ship_type)
        }
        other => panic!("unexpected {:?}", other),
    }
}

#[test]
fn truncated_type5_dte_zero_is_ready() {
    // truncated to 62..68 characters: the bit after the destination is a 0
    for n in [62usize, 63, 64, 66, 67, 68] {
        // destination "A": DTE bit 0 -> Ready
        let named = format!("{}@@{}", HEAD, "0".repeat(n - 52));
        let (dte, dest, ship) = dte_of(&named);
        assert_eq!(dest, "A");
        assert_eq!(ship, Some(ShipType::PleasureCraft));
        assert_eq!(dte, Dte::Ready, "named destination, {} chars", n);
        // blank destination: the very same DTE bit must decode the same way
        let blank = format!("{}@{}", HEAD, "0".repeat(n - 51));
        let (dte, dest, ship) = dte_of(&blank);
        assert_eq!(dest, "");
        assert_eq!(ship, Some(ShipType::PleasureCraft));
        assert_eq!(dte, Dte::Ready, "blank destination, {} chars", n);
    }
}

#[test]
fn truncated_type5_through_parser() {
    let payload = format!("{}@{}", HEAD, "0".repeat(11));
    let body = format!("AIVDM,1,1,,A,{},0", payload);
    let ck = body.bytes().fold(0u8, |a, b| a ^ b);
    let line = format!("!{}*{:02X}", body, ck);
    let mut p = AisParser::new();
    match p.parse(line.as_bytes(), true).unwrap() {
        AisFragments::Complete(s) => match s.message {
            Some(AisMessage::StaticAndVoyageRelatedData(m)) => assert_eq!(m.dte, Dte::Ready),
            other => panic!("unexpected {:?}", other),
        },
        other => panic!("unexpected {:?}", other),
    }
}
