//! C17 — rejected lines and unfragmented sentences leave no trace in the parser; distinct
//! parser instances never influence each other.
//! Oracle: metamorphic. Twin runs with / without the inert line must give identical canonical
//! outcomes on every other line and on a probe suite appended after the history.

use super::c06::{alphabet, Sym};
use super::common::*;
use crate::json::J;
use crate::mon::{self, Call, Ctx, Parser, Report};
use crate::nmea_ref::{self, Build, Scan};
use crate::observe::Outcome;
use crate::reasm_ref::{Expect, Reasm, Seen};
use crate::rng::Rng;

const PID: &str = "C17";

type Line = (Vec<u8>, bool);

/// outcome of one call, compared by value (formatted only when a difference is reported)
#[derive(Clone, PartialEq, Debug)]
pub enum Out {
    Done(Outcome),
    Panic(String),
}

impl Out {
    fn text(&self) -> String {
        match self {
            Out::Done(o) => o.canon(),
            Out::Panic(l) => format!("PANIC:{}", l),
        }
    }
    fn is_err(&self) -> bool {
        matches!(self, Out::Done(Outcome::Err(_)))
    }
}

fn canon(c: &Call) -> Out {
    match c {
        Call::Done(o) => Out::Done(o.clone()),
        Call::Panic(p) => Out::Panic(p.loc.clone()),
    }
}

/// run a history on a fresh parser; returns canonical outcomes and the final state token
fn run_hist(h: &[Line]) -> (Vec<Out>, String) {
    let mut p = Parser::new();
    let mut out = Vec::with_capacity(h.len());
    for (l, d) in h {
        out.push(canon(&p.parse(l, *d)));
    }
    (out, p.token())
}

/// probe suite: continuations that make the three state fields observable
fn probes(ids: &[Option<u8>]) -> Vec<Line> {
    let mut v = Vec::new();
    for id in ids {
        // the last three are outside 1 <= k <= n: whatever they return must not depend on
        // an inert line either
        for (n, k) in [(2u8, 2u8), (3, 2), (3, 3), (4, 3), (4, 4), (0, 1), (0, 2), (2, 3)] {
            v.push((nmea_ref::mk(n, k, *id, b"PROBE;", 0), false));
        }
    }
    v
}

/// outcome of each probe when appended (alone) after the history
fn probe_outcomes(h: &[Line], ps: &[Line]) -> Vec<Out> {
    ps.iter()
        .map(|(pl, pd)| {
            let mut p = Parser::new();
            for (l, d) in h {
                let _ = p.parse(l, *d);
            }
            canon(&p.parse(pl, *pd))
        })
        .collect()
}

#[derive(Clone, Copy, PartialEq, Eq, Debug)]
enum Inert {
    No,
    Malformed,
    BadChecksum,
    Sequencing,
    Unfragmented,
}

/// which positions hold lines the statement declares inert (given what was observed)
fn classify(h: &[Line], outs: &[Out]) -> Vec<(Inert, &'static str)> {
    let mut m = Reasm::new();
    let mut v = Vec::with_capacity(h.len());
    for ((l, d), o) in h.iter().zip(outs) {
        let is_err = o.is_err();
        let sc = nmea_ref::scan(l);
        let stc = crate::reasm_ref::state_class(&m.st);
        let cls = match &sc {
            Scan::DontCare(_) => Inert::No,
            Scan::Reject(_) => {
                if is_err {
                    Inert::Malformed
                } else {
                    Inert::No
                }
            }
            Scan::Accept(f) if f.tx != f.body_xor => {
                if is_err {
                    Inert::BadChecksum
                } else {
                    Inert::No
                }
            }
            Scan::Accept(f) => {
                let over = mon::is_noalloc() && {
                    let open = match &m.st {
                        crate::reasm_ref::St::Open { acc, .. } => acc.len(),
                        _ => 0,
                    };
                    f.payload.len() > 384 || open + f.payload.len() > 384
                };
                let exp = m.expect(f.n, f.k, f.id, &f.payload);
                let seen = match o {
                    Out::Done(Outcome::Complete(_)) => Seen::Complete,
                    Out::Done(Outcome::Incomplete(_)) => Seen::Incomplete,
                    _ => Seen::Err,
                };
                // a line counts as capacity-rejected only when capacity is the only thing against it:
                // one that sequencing rejects in every build stays a sequencing-rejected line however
                // long it is
                let over = over && !matches!(exp, Expect::Reject(_));
                let c = if f.n == 1 && f.k == 1 {
                    if over {
                        Inert::No
                    } else {
                        Inert::Unfragmented
                    }
                } else if is_err && !over {
                    match exp {
                        Expect::Reject(_) => Inert::Sequencing,
                        // out-of-domain numbering rejected with decoding off: only sequencing
                        // can have rejected it
                        Expect::Unjudged if !*d || f.k != f.n => Inert::Sequencing,
                        _ => Inert::No,
                    }
                } else {
                    Inert::No
                };
                m.advance(f.n, f.k, f.id, &f.payload, seen, *d);
                c
            }
        };
        v.push((cls, stc));
    }
    v
}

/// remove each inert line in turn and compare everything else
fn check_history(rep: &mut Report, h: &[Line], ps: &[Line], max_removals: usize, r: &mut Rng, note: &str) {
    // all runs of one comparison on parsers obtained the same way
    let _pin = mon::pin_ctor(r.below(2));
    let (outs, _tok) = run_hist(h);
    let cls = classify(h, &outs);
    let elig: Vec<usize> = (0..h.len()).filter(|i| cls[*i].0 != Inert::No).collect();
    if elig.is_empty() {
        rep.count("histories_without_inert_line");
        return;
    }
    let base_probes = probe_outcomes(h, ps);
    let chosen: Vec<usize> = if elig.len() <= max_removals {
        elig
    } else {
        let mut e = elig;
        let mut c = Vec::new();
        for _ in 0..max_removals {
            let i = r.usize(0, e.len() - 1);
            c.push(e.remove(i));
        }
        c
    };
    for i in chosen {
        rep.eval();
        let mut h2: Vec<Line> = h.to_vec();
        h2.remove(i);
        let (outs2, _) = run_hist(&h2);
        let mut differs: Option<String> = None;
        for j in 0..h.len() {
            if j == i {
                continue;
            }
            let j2 = if j < i { j } else { j - 1 };
            if outs[j] != outs2[j2] {
                differs = Some(format!("line {} returned {} with the inert line present and {} without it", j, outs[j].text(), outs2[j2].text()));
                break;
            }
        }
        let mut probe_hit = "none";
        if differs.is_none() {
            let p2 = probe_outcomes(&h2, ps);
            for (k, (a, b)) in base_probes.iter().zip(p2.iter()).enumerate() {
                if a != b {
                    differs = Some(format!("probe {} ({}) returned {} after the history with the inert line and {} without it", k, crate::json::esc_bytes(&ps[k].0), a.text(), b.text()));
                    probe_hit = "probe";
                    break;
                }
            }
        }
        let (kind, stc) = cls[i];
        rep.class(format!("{}|{:?}|pos={}", stc, kind, if i + 1 == h.len() { "last" } else if i == 0 { "first" } else { "middle" }));
        rep.count(&format!("removed:{:?}", kind));
        if rep.samples.len() < 5 {
            rep.sample(5, || {
                let mut o = J::obj();
                o.set("history", J::Arr(h.iter().take(8).map(|(l, _)| J::bytes(&l[..l.len().min(90)])).collect()));
                o.set("removed_index", J::i(i as u64));
                o.set("inert_kind", J::s(&format!("{:?}", kind)));
                o.set("probes_compared", J::i(ps.len() as u64));
                o.set("difference", J::s(if differs.is_some() { "yes" } else { "none" }));
                o
            });
        }
        if let Some(why) = differs {
            let mut o = mon::replay_history(h, note);
            o.set("inert_line_index", J::i(i as u64));
            o.set("detected_by", J::s(probe_hit));
            rep.violation(
                PID,
                format!("trace-left-by-{:?}-in-{}", kind, stc),
                format!("removing inert line {} ({:?}: {}) changes other results: {}", i, kind, crate::json::esc_bytes(&h[i].0), why),
                || o,
            );
        }
    }
}

fn sym_line(s: &Sym, ctr: u64, last: &Option<(u8, u8, Option<u8>)>) -> Line {
    match s {
        Sym::Hdr(n, k, id) => (nmea_ref::mk(*n, *k, *id, &uniq_payload(ctr), 0), false),
        Sym::BadChecksum => {
            // a perfect *next* fragment of the last accepted-looking header, wrong checksum
            let (n, k, id) = match (last, ctr % 3) {
                (Some((n, k, id)), 0) if *k < *n => (*n, *k + 1, *id),
                // an opener carrying the id of the last header seen, or no id
                (Some((n, _, id)), 1) => ((*n).max(2), 1, *id),
                (Some(_), _) => (2, 1, None),
                _ => (2, 1, Some(1)),
            };
            let mut b = Build::simple(n, k, id, b"A", &uniq_payload(ctr), 0);
            b.cks = Some(nmea_ref::xor(&b.body()) ^ 0x55);
            (b.line(), false)
        }
        Sym::Malformed => match (last, ctr % 3) {
            // malformed behind a readable header: an opener with the id of the last header seen,
            // or its next fragment
            (Some((n, _, id)), 1) => {
                let mut b = Build::simple((*n).max(2), 1, *id, b"A", b"", 0);
                b.payload.clear();
                (b.line(), false)
            }
            (Some((n, k, id)), 2) if *k < *n => {
                let mut b = Build::simple(*n, *k + 1, *id, b"A", &uniq_payload(ctr), 0);
                b.fill = "6".into();
                (b.line(), false)
            }
            _ => (b"!AIVDM,2,x,1,A,PPPP;,0*00".to_vec(), false),
        },
    }
}

fn exhaustive(ctx: &Ctx, rep: &mut Report, depth: usize, r: &mut Rng) {
    let a = alphabet();
    let base = a.len() as u64;
    let total = base.pow(depth as u32);
    let ps = probes(&[None, Some(1), Some(255)]);
    let block = base.pow((depth - 2) as u32);
    let mut h = 0u64;
    while h < total {
        if !ctx.mine(h / block) {
            h += block;
            continue;
        }
        let mut x = h;
        let mut digits = vec![0usize; depth];
        for d in (0..depth).rev() {
            digits[d] = (x % base) as usize;
            x /= base;
        }
        let mut lines: Vec<Line> = Vec::with_capacity(depth);
        let mut last = None;
        for (i, d) in digits.iter().enumerate() {
            lines.push(sym_line(&a[*d], i as u64 + 1, &last));
            if let Sym::Hdr(n, k, id) = &a[*d] {
                last = Some((*n, *k, *id));
            }
        }
        check_history(rep, &lines, &ps, depth, r, "exhaustive");
        h += 1;
    }
    rep.extra.insert("exhaustive_history_length".into(), J::i(depth as u64));
}

/// random inert line of every kind
fn inert_line(r: &mut Rng, open: &Option<(u8, u8, Option<u8>)>, ctr: u64) -> Line {
    match r.below(8) {
        0 => (nmea_ref::mk(1, 1, None, b"15RTgt0PAso;90TKcjM8h6g208CQ", 0), true),
        1 => {
            // fails half-way through unarmoring (valid prefix, invalid last character)
            let mut pl = armor_chars(r, 27);
            pl.push(b'~');
            (nmea_ref::mk(1, 1, open.and_then(|o| o.2), &pl, 0), true)
        }
        2 => {
            let mut b = Build::simple(1, 1, None, b"A", b"15RTgt0PAso;90TKcjM8h6g208CQ", 0);
            b.tag = Some(b"c:1".to_vec());
            (b.line(), r.bool())
        }
        3 => {
            // perfect next fragment - or an opener with the same / another id - with a wrong checksum
            let (n, k, id) = match (open, r.below(3)) {
                (Some((n, k, id)), 0) if *k < *n => (*n, *k + 1, *id),
                (Some((n, _, id)), 1) => (*n, 1, *id),
                (Some((_, _, id)), _) => (2, 1, Some(id.map_or(6, |x| (x % 10 + 2) % 10))),
                _ => (3, 1, Some(2)),
            };
            let mut b = Build::simple(n, k, id, b"A", &uniq_payload(ctr), 0);
            b.cks = Some(nmea_ref::xor(&b.body()) ^ (1 << r.below(8)));
            (b.line(), r.bool())
        }
        4 => {
            let base = nmea_ref::mk(2, 1, Some(1), &uniq_payload(ctr), 0);
            (mutate(r, &base), r.bool())
        }
        5 => {
            // sequencing-rejected fragment: duplicate / skip / wrong id / orphan
            let (n, k, id) = match open {
                Some((n, k, id)) => match r.below(4) {
                    0 => (*n, *k, *id),
                    1 => (n.saturating_add(1).max(k.saturating_add(2)), k.saturating_add(2), *id),
                    2 => (*n, k.saturating_add(1), Some(id.map_or(9, |x| (x % 10 + 1) % 10))),
                    _ => (*n, 0, *id),
                },
                None => (3, 2, Some(1)),
            };
            (nmea_ref::mk(n, k, id, &uniq_payload(ctr), 0), false)
        }
        6 => {
            if r.bool() {
                let n = r.usize(0, 40);
                (r.bytes(n), r.bool())
            } else {
                let (n, k, id) = match (open, r.below(3)) {
                    (Some((n, _, id)), 0) => ((*n).max(2), 1, *id),
                    (Some((n, k, id)), 1) => (*n, k.saturating_add(1), *id),
                    _ => (2, 1, Some(r.below(10) as u8)),
                };
                (malformed_with_header(r, n, k, id), r.bool())
            }
        }
        _ => (nmea_ref::mk(1, 1, Some(3), &uniq_payload(ctr), 0), false),
    }
}

/// well-formed line, presentation re-drawn when `dressed`
fn hdr_line(r: &mut Rng, dressed: bool, n: u8, k: u8, id: Option<u8>, payload: &[u8]) -> Vec<u8> {
    if dressed {
        let mut b = Build::simple(n, k, id, b"A", payload, 0);
        dress(r, &mut b, k < n);
        b.line()
    } else {
        nmea_ref::mk(n, k, id, payload, 0)
    }
}

fn random_histories(ctx: &Ctx, rep: &mut Report, r: &mut Rng) {
    for hi in 0..ctx.budget(1_500, 40_000) {
        let dressed = hi % 2 == 1;
        let len = r.usize(4, 40);
        let mut h: Vec<Line> = Vec::new();
        let mut open: Option<(u8, u8, Option<u8>)> = None;
        let mut ids: Vec<Option<u8>> = vec![None];
        let mut ctr = 0u64;
        let pool = [*r.pick(&crate::gen::SPECIAL_MMSI) as u64, r.bits(30)];
        // every fourth history is a conversation: mostly decoded unfragmented messages
        let talk = hi % 4 == 3;
        while h.len() < len {
            ctr += 1;
            if r.chance(2, 5) && !talk {
                h.push(inert_line(r, &open, ctr));
                continue;
            }
            if r.chance(1, 6) || (talk && r.chance(3, 4)) {
                // a decodable unfragmented message with decoding on: its decoded content makes
                // any residue of earlier lines visible
                // (station numbers from a pool of two per history: the messages refer to one another)
                let br = r.pick(crate::gen::BRANCHES);
                let (chars, fill) = super::c04::fresh_with_pool(br, r, &pool).to_armor();
                h.push((nmea_ref::mk(1, 1, None, &chars, fill), true));
                continue;
            }
            // mostly correct progress of groups, sometimes a new opener
            match open {
                Some((n, k, id)) if k < n && r.chance(4, 5) => {
                    let dec = r.chance(1, 6);
                    h.push((hdr_line(r, dressed, n, k + 1, id, &uniq_payload(ctr)), dec));
                    open = if k + 1 == n { None } else { Some((n, k + 1, id)) };
                }
                _ => {
                    let n = r.range(2, 4) as u8;
                    let id = if r.chance(1, 4) { None } else { Some(r.below(4) as u8) };
                    if !ids.contains(&id) {
                        ids.push(id);
                    }
                    h.push((hdr_line(r, dressed, n, 1, id, &uniq_payload(ctr)), false));
                    open = Some((n, 1, id));
                }
            }
        }
        let ps = probes(&ids);
        check_history(rep, &h, &ps, 4, r, "random");
    }
}

/// instance independence: several parsers fed interleaved streams in one thread
fn interleaved_instances(ctx: &Ctx, rep: &mut Report, r: &mut Rng) {
    for _ in 0..ctx.budget(1_500, 60_000) {
        let _pin = mon::pin_ctor(r.below(2));
        let k = if r.bool() { 2 } else { 4 };
        let streams: Vec<Vec<Line>> = (0..k).map(|s| stream(r, s as u64)).collect();
        let isolated: Vec<Vec<Out>> = streams.iter().map(|s| run_hist(s).0).collect();
        let mut ps: Vec<Parser> = (0..k).map(|_| Parser::new()).collect();
        let mut pos = vec![0usize; k];
        let mut got: Vec<Vec<Out>> = vec![Vec::new(); k];
        let round_robin = r.bool();
        let mut turn = 0usize;
        loop {
            let live: Vec<usize> = (0..k).filter(|i| pos[*i] < streams[*i].len()).collect();
            if live.is_empty() {
                break;
            }
            let i = if round_robin {
                turn += 1;
                live[turn % live.len()]
            } else {
                *r.pick(&live)
            };
            let (l, d) = &streams[i][pos[i]];
            got[i].push(canon(&ps[i].parse(l, *d)));
            pos[i] += 1;
        }
        rep.eval();
        rep.class(format!("interleaved|parsers={}|{}", k, if round_robin { "round-robin" } else { "random" }));
        rep.count("interleavings");
        for i in 0..k {
            if got[i] != isolated[i] {
                let j = (0..got[i].len()).find(|j| got[i][*j] != isolated[i][*j]).unwrap_or(0);
                rep.violation(
                    PID,
                    "instances-influence-each-other".into(),
                    format!("parser {} of {} fed an interleaved stream differs from its isolated run at line {}: {} vs {}", i, k, j, got[i][j].text(), isolated[i][j].text()),
                    || mon::replay_history(&streams[i], "interleaved"),
                );
                break;
            }
        }
    }
}

/// long runs of inert lines of one kind inside an open group: removing the whole run must
/// change nothing (an 8- or 16-bit event counter inside the parser would show here)
fn mass_inert_runs(ctx: &Ctx, rep: &mut Report, r: &mut Rng) {
    // 2^8, 2^16, 2^17 and 10^5 (+1): counters of 8 / 16 bits, and round limits a maintainer might pick
    let runs: [usize; 11] = [100, 255, 256, 257, 300, 600, 1100, 65_537, 66_000, 100_001, 131_073];
    let mut item = 0u64;
    for &run in runs.iter() {
        for kind in 0..6u64 {
            if !ctx.mine(item) {
                item += 1;
                continue;
            }
            item += 1;
            // the long runs: rejected continuations (kind 0) and accepted unfragmented sentences
            // (kind 4) in the quick tier, every kind in the thorough tier
            if run > 2000 && !(ctx.thorough() || kind == 0 || kind == 4) {
                continue;
            }
            let _pin = mon::pin_ctor(r.below(2));
            let id = Some(r.below(10) as u8);
            let n = 3u8;
            let open = Some((n, 1u8, id));
            let frag = |k: u8| (nmea_ref::mk(n, k, id, &uniq_payload(k as u64), 0), false);
            let inert = |r: &mut Rng, i: usize| -> Line {
                match kind {
                    0 => (nmea_ref::mk(n, 3, id, &uniq_payload(900 + i as u64), 0), false), // skips ahead
                    1 => (nmea_ref::mk(n, 2, Some(id.unwrap() ^ 1), &uniq_payload(900 + i as u64), 0), false), // wrong id
                    2 => {
                        let mut b = Build::simple(n, 2, id, b"A", &uniq_payload(900 + i as u64), 0);
                        b.cks = Some(nmea_ref::xor(&b.body()) ^ 0x10);
                        (b.line(), false)
                    }
                    3 => (b"!AIVDM,3,x,1,A,PPPP;,0*00".to_vec(), false),
                    4 => (nmea_ref::mk(1, 1, None, b"15RTgt0PAso;90TKcjM8h6g208CQ", 0), true),
                    _ => inert_line(r, &open, 900 + i as u64),
                }
            };
            let mut with: Vec<Line> = vec![frag(1)];
            for i in 0..run {
                with.push(inert(r, i));
            }
            with.push(frag(2));
            with.push(frag(3));
            let without: Vec<Line> = vec![frag(1), frag(2), frag(3)];
            let (ow, _) = run_hist(&with);
            let (oo, _) = run_hist(&without);
            rep.eval();
            rep.class(format!("mass-run|kind{}|run{}", kind, run));
            rep.count("mass_runs");
            // the run must really have been inert (kind 5 is mixed: judge only if all rejected or unfragmented)
            let all_inert = ow[1..=run].iter().zip(with[1..=run].iter()).all(|(o, (l, _))| {
                o.is_err() || matches!(nmea_ref::scan(l), Scan::Accept(f) if f.n == 1 && f.k == 1)
            });
            if !all_inert {
                rep.count("mass_runs_not_all_inert");
                continue;
            }
            let same = ow[0] == oo[0] && ow[run + 1] == oo[1] && ow[run + 2] == oo[2];
            if !same {
                let mut short: Vec<Line> = vec![with[0].clone(), with[1].clone()];
                short.push((format!("... {} more lines of the same kind ...", run - 1).into_bytes(), false));
                short.push(with[run + 1].clone());
                short.push(with[run + 2].clone());
                rep.violation(
                    PID,
                    format!("trace-left-by-run-of-{}-inert-lines", if run >= 256 { "256-or-more" } else { "fewer-than-256" }),
                    format!("a run of {} inert lines (kind {}) inside a 3-fragment group changes the group's results: continuation {} vs {}, final {} vs {}", run, kind, ow[run + 1].text(), oo[1].text(), ow[run + 2].text(), oo[2].text()),
                    || mon::replay_history(&short, "mass-inert-run (run abbreviated)"),
                );
            }
        }
    }
}

/// very long fragments (std / alloc): an opener and a sequencing-rejected stray whose lengths
/// together pass 2^16, 2^20 and 2^24 bytes - wherever a heap-backed buffer might be given a bound,
/// a rejected line must not be what trips it
/// no-allocator build: a sequencing-rejected stray whose payload, added to what the open group has
/// buffered, would not fit the fixed buffer - it is rejected for its sequencing like in every other
/// build and must not cost the group anything
fn capacity_strays(ctx: &Ctx, rep: &mut Report, r: &mut Rng) {
    if !mon::is_noalloc() {
        return;
    }
    let mut item = 7500u64;
    for l1 in [150usize, 300, 378] {
        for l2 in [100usize, 240, 384] {
            for kind in 0..3u8 {
                if !ctx.mine(item) {
                    item += 1;
                    continue;
                }
                item += 1;
                if l1 + l2 <= 384 {
                    continue;
                }
                let _pin = mon::pin_ctor(r.below(2));
                let id = Some(1u8);
                let long = |len: usize, tag: u64| {
                    let mut v = uniq_payload(tag);
                    v.extend(std::iter::repeat(b'w').take(len - 6));
                    v
                };
                let opener: Line = (nmea_ref::mk(3, 1, id, &long(l1, 1), 0), false);
                let stray: Line = match kind {
                    0 => (nmea_ref::mk(2, 2, Some(7), &long(l2, 2), 0), false),
                    1 => (nmea_ref::mk(3, 3, id, &long(l2, 2), 0), false),
                    _ => (nmea_ref::mk(9, 5, None, &long(l2, 2), 0), false),
                };
                let f2: Line = (nmea_ref::mk(3, 2, id, b"AB", 0), false);
                let f3: Line = (nmea_ref::mk(3, 3, id, b"CD", 0), false);
                let with = vec![opener.clone(), stray, f2.clone(), f3.clone()];
                let without = vec![opener, f2, f3];
                let (ow, _) = run_hist(&with);
                let (oo, _) = run_hist(&without);
                rep.eval();
                rep.class(format!("capacity-stray|{}+{}|kind{}", l1, l2, kind));
                rep.count("capacity_strays");
                if !ow[1].is_err() {
                    continue;
                }
                if ow[0] != oo[0] || ow[2] != oo[1] || ow[3] != oo[2] {
                    rep.violation(
                        PID,
                        "trace-left-by-long-sequencing-rejected-fragment".into(),
                        format!("a sequencing-rejected fragment of {} characters after an opener of {} characters changes the group (no-allocator build): continuation {} vs {}, final {} vs {}", l2, l1, ow[2].text().chars().take(60).collect::<String>(), oo[1].text().chars().take(60).collect::<String>(), ow[3].text().chars().take(60).collect::<String>(), oo[2].text().chars().take(60).collect::<String>()),
                        || mon::replay_history(&with, "capacity-stray"),
                    );
                }
            }
        }
    }
}

fn jumbo_inert(ctx: &Ctx, rep: &mut Report, r: &mut Rng) {
    if mon::is_noalloc() {
        return;
    }
    let mut item = 7000u64;
    for th in [1usize << 16, 1 << 20, 1 << 24] {
        for kind in 0..3u8 {
            for big in 0..2u8 {
                if !ctx.mine(item) {
                    item += 1;
                    continue;
                }
                item += 1;
                let _pin = mon::pin_ctor(r.below(2));
                let (l1, l2) = if big == 0 { (th / 2 + th / 16, th / 2 + th / 16) } else { (1000, th) };
                let id = Some(1u8);
                let long = |r: &mut Rng, len: usize, tag: u64| {
                    let mut v = uniq_payload(tag);
                    v.extend(std::iter::repeat(*r.pick(b"05Ww")).take(len));
                    v
                };
                let opener: Line = (nmea_ref::mk(3, 1, id, &long(r, l1, 1), 0), false);
                let stray: Line = match kind {
                    0 => (nmea_ref::mk(2, 2, Some(7), &long(r, l2, 2), 0), false), // foreign id
                    1 => (nmea_ref::mk(3, 3, id, &long(r, l2, 2), 0), false),      // skips fragment 2
                    _ => (nmea_ref::mk(9, 5, None, &long(r, l2, 2), 0), false),    // no id, orphan number
                };
                let f2: Line = (nmea_ref::mk(3, 2, id, &uniq_payload(3), 0), false);
                let f3: Line = (nmea_ref::mk(3, 3, id, &uniq_payload(4), 0), false);
                let with = vec![opener.clone(), stray.clone(), f2.clone(), f3.clone()];
                let without = vec![opener, f2, f3];
                let (ow, _) = run_hist(&with);
                let (oo, _) = run_hist(&without);
                rep.eval();
                rep.class(format!("jumbo-inert|2^{}|kind{}|{}", th.trailing_zeros(), kind, if big == 0 { "both-long" } else { "stray-long" }));
                rep.count("jumbo_inert");
                if !ow[1].is_err() {
                    rep.count("jumbo_stray_not_rejected");
                    continue;
                }
                if ow[0] != oo[0] || ow[2] != oo[1] || ow[3] != oo[2] {
                    let short: Vec<Line> = vec![
                        (format!("opener 1 of 3, id 1, {} payload characters", l1 + 6).into_bytes(), false),
                        (format!("sequencing-rejected stray (kind {}), {} payload characters", kind, l2 + 6).into_bytes(), false),
                        with[2].clone(),
                        with[3].clone(),
                    ];
                    rep.violation(
                        PID,
                        "trace-left-by-very-long-rejected-fragment".into(),
                        format!("a sequencing-rejected fragment of {} characters after an opener of {} characters changes the group: continuation {} vs {}, final {} vs {}", l2 + 6, l1 + 6, ow[2].text().chars().take(60).collect::<String>(), oo[1].text().chars().take(60).collect::<String>(), ow[3].text().chars().take(60).collect::<String>(), oo[2].text().chars().take(60).collect::<String>()),
                        || mon::replay_history(&short, "jumbo-inert (long payloads abbreviated)"),
                    );
                }
            }
        }
    }
}

pub fn stream(r: &mut Rng, salt: u64) -> Vec<Line> {
    let mut h = Vec::new();
    let groups = r.usize(1, 4);
    let mut ctr = salt * 1000;
    for g in 0..groups {
        let n = if g == 0 && r.chance(1, 6) { r.range(5, 255) as u8 } else { r.range(2, 4) as u8 };
        // all streams deliberately use the same ids: a shared buffer would mix them up
        let id = Some(1);
        for k in 1..=n {
            ctr += 1;
            h.push((nmea_ref::mk(n, k, id, &uniq_payload(ctr), 0), false));
            if r.chance(1, 4) {
                ctr += 1;
                h.push(inert_line(r, &Some((n, k, id)), ctr));
            }
        }
        if r.bool() {
            h.push((nmea_ref::mk(1, 1, None, b"15RTgt0PAso;90TKcjM8h6g208CQ", 0), true));
        }
    }
    h
}

pub fn run(ctx: &Ctx, rep: &mut Report) {
    let mut r = ctx.rng("c17");
    exhaustive(ctx, rep, if ctx.thorough() { 5 } else { 4 }, &mut r);
    random_histories(ctx, rep, &mut r);
    interleaved_instances(ctx, rep, &mut r);
    mass_inert_runs(ctx, rep, &mut r);
    jumbo_inert(ctx, rep, &mut r);
    capacity_strays(ctx, rep, &mut r);
    rep.require("removed:Malformed");
    rep.require("removed:BadChecksum");
    rep.require("removed:Sequencing");
    rep.require("removed:Unfragmented");
    rep.require("interleavings");
    rep.require("mass_runs");
    rep.sample(3, || {
        let mut o = J::obj();
        o.set("history", J::Arr(vec![J::bytes(&nmea_ref::mk(3, 1, Some(1), &uniq_payload(1), 0)), J::s("<perfect fragment 2/3 with a wrong checksum>  (removed in the twin run)"), J::bytes(&nmea_ref::mk(3, 2, Some(1), &uniq_payload(3), 0)), J::bytes(&nmea_ref::mk(3, 3, Some(1), &uniq_payload(4), 0))]));
        o.set("expected", J::s("identical canonical outcomes for lines 0, 2, 3 and for every probe in both runs"));
        o
    });
}

/// Threaded variant (run under Miri / TSan): parsers on separate threads never influence
/// each other. Each thread runs its stream; results must equal the isolated sequential run.
pub fn run_threads(ctx: &Ctx, rep: &mut Report) {
    let mut r = ctx.rng("c17t");
    let rounds = ctx.budget(3, 200);
    let _pin = mon::pin_ctor(0);
    for round in 0..rounds {
        let k = if round % 2 == 0 { 4 } else { 8 };
        let streams: Vec<Vec<Line>> = (0..k).map(|s| stream(&mut r, s as u64)).collect();
        let isolated: Vec<Vec<String>> = streams.iter().map(|s| run_hist(s).0.iter().map(|o| o.text()).collect()).collect();
        let handles: Vec<std::thread::JoinHandle<Vec<String>>> = streams
            .iter()
            .cloned()
            .map(|s| {
                std::thread::spawn(move || {
                    let mut p = ais::AisParser::new();
                    let mut out = Vec::new();
                    for (l, d) in &s {
                        let res = p.parse(l, *d);
                        out.push(crate::observe::outcome(&res).canon());
                        std::thread::yield_now();
                    }
                    out
                })
            })
            .collect();
        for (i, h) in handles.into_iter().enumerate() {
            rep.eval();
            match h.join() {
                Ok(got) => {
                    if got != isolated[i] {
                        rep.violation(PID, "threads-influence-each-other".into(), format!("parser on thread {} differs from its isolated run", i), || mon::replay_history(&streams[i], "threads"));
                    }
                }
                Err(_) => rep.violation(PID, "thread-panicked".into(), format!("thread {} panicked", i), || mon::replay_history(&streams[i], "threads")),
            }
        }
        rep.class(format!("threads={}", k));
        rep.count("thread_rounds");
    }
    rep.class("threads-done".into());
    rep.require("thread_rounds");
}
