//! C09 — the decoded variant follows the 6-bit type; unsupported types are errors.
//! Oracle: the 64-entry table type -> variant (`decode_ref::variant_of`).

use crate::bits::Bits;
use crate::decode_ref::variant_of;
use crate::gen;
use crate::json::J;
use crate::mon::{self, Call, Ctx, MsgCall, Parser, Report};
use crate::nmea_ref;
use crate::observe::Outcome;
use crate::val::Val;

const PID: &str = "C09";

fn check_buf(rep: &mut Report, buf: &[u8], bodycls: &str) {
    rep.eval();
    let t = buf[0] >> 2;
    let want = variant_of(t);
    let c = mon::call_message(buf);
    let outcome = match &c {
        MsgCall::Ok(_, _) => "Ok",
        MsgCall::Err => "Err",
        MsgCall::Panic(_) => "Panic",
    };
    rep.sample(5, || {
        let mut o = J::obj();
        o.set("type_bits", J::i(t as u64));
        o.set("body", J::s(bodycls));
        o.set("bytes", J::i(buf.len() as u64));
        o.set("reference", J::s(want.unwrap_or("Err (unsupported type)")));
        o.set("observed", J::s(outcome));
        o
    });
    rep.class(format!("t{}|{}|{}", t, bodycls, outcome));
    rep.count(&format!("type{}:{}", t, outcome));
    match c {
        MsgCall::Panic(pi) => {
            rep.violation(PID, format!("panic@{}", pi.loc), format!("type {}: panic '{}' at {}", t, pi.msg, pi.loc), || mon::replay_message(buf, bodycls));
        }
        MsgCall::Err => {}
        MsgCall::Ok(o, _) => {
            match want {
                None => rep.violation(PID, format!("unsupported-type-{}-decoded", t), format!("type {} must be an error but decoded as {}", t, o.variant), || mon::replay_message(buf, bodycls)),
                Some(v) if v != o.variant => rep.violation(PID, format!("type-{}-wrong-variant", t), format!("type {} decoded as {} instead of {}", t, o.variant, v), || mon::replay_message(buf, bodycls)),
                Some(_) => {
                    if o.get("message_type", 255) != Some(&Val::U(t as u64)) {
                        rep.violation(PID, format!("type-{}-wrong-type-field", t), format!("message_type field {:?} for type bits {}", o.get("message_type", 255), t), || mon::replay_message(buf, bodycls));
                    }
                }
            }
        }
    }
}

pub fn run(ctx: &Ctx, rep: &mut Report) {
    let mut r = ctx.rng("c09");
    let mut item = 0u64;
    for t in 0..64u8 {
        if !ctx.mine(item) {
            item += 1;
            continue;
        }
        item += 1;
        for low in 0..4u8 {
            // valid bodies of every supported layout transplanted under this type value
            for b in gen::BRANCHES.iter() {
                let reps = if ctx.thorough() { 96 } else { 12 };
                for _ in 0..reps {
                    let mut bits = gen::gen_message(b, &mut r);
                    bits.put(0, 6, t as u64);
                    bits.put(6, 2, low as u64);
                    let buf = bits.to_bytes();
                    check_buf(rep, &buf, "transplanted");
                }
            }
            // random / all-zero / all-one bodies of every length
            for len in 1..=130usize {
                for kind in 0..3 {
                    let mut buf = match kind {
                        0 => vec![0u8; len],
                        1 => vec![0xff; len],
                        _ => r.bytes(len),
                    };
                    buf[0] = (t << 2) | low;
                    check_buf(rep, &buf, ["zeros", "ones", "random"][kind]);
                }
            }
        }
    }
    // binary-message bodies carrying registered application identifiers (the DAC / FI pairs of the
    // type 6 and type 8 layouts, with every value of the two bits in front of them) under every
    // type value: what an implementation knows about an application must not make it decode a type
    // it does not support, or another kind than the six bits announce
    for t in 0..64u8 {
        if !ctx.mine(item) {
            item += 1;
            continue;
        }
        item += 1;
        for dac in [0u64, 1, 200, 235, 250, 265, 316, 366, 367, 1023] {
            for fid in 0..64u64 {
                for two in 0..4u64 {
                    for layout in 0..2 {
                        let mut bits = Bits::random(if layout == 0 { 168 } else { 200 }, &mut r);
                        bits.put(0, 6, t as u64);
                        if layout == 0 {
                            // type 8 layout: two bits, DAC, FI from bit 38
                            bits.put(38, 2, two);
                            bits.put(40, 10, dac);
                            bits.put(50, 6, fid);
                        } else {
                            // type 6 layout: retransmit + spare, DAC, FI from bit 70
                            bits.put(70, 2, two);
                            bits.put(72, 10, dac);
                            bits.put(82, 6, fid);
                        }
                        check_buf(rep, &bits.to_bytes(), "application-identifier");
                    }
                }
            }
        }
    }
    // through full sentences: the 64 armoring characters as first payload character
    for (i, &ch) in crate::armor::ALPHABET.iter().enumerate() {
        if !ctx.mine(item) {
            item += 1;
            continue;
        }
        item += 1;
        let t = i as u8;
        for b in gen::BRANCHES.iter() {
            let mut bits: Bits = gen::gen_message(b, &mut r);
            bits.put(0, 6, t as u64);
            let (chars, fill) = bits.to_armor();
            debug_assert_eq!(chars[0], ch);
            let line = nmea_ref::mk(1, 1, None, &chars, fill);
            rep.eval();
            let mut p = Parser::new();
            let want = variant_of(t);
            match p.parse(&line, true) {
                Call::Panic(pi) => rep.violation(PID, format!("panic@{}", pi.loc), pi.msg.clone(), || mon::replay_history(&[(line.clone(), true)], "sentence")),
                Call::Done(Outcome::Complete(s)) => {
                    let v = s.message.as_ref().map(|m| m.variant);
                    rep.class(format!("sentence|t{}|Ok", t));
                    if v != want || want.is_none() {
                        rep.violation(PID, format!("sentence-type-{}-wrong-variant", t), format!("first character {:?} (type {}) decoded as {:?}, expected {:?}", ch as char, t, v, want), || mon::replay_history(&[(line.clone(), true)], "sentence"));
                    }
                }
                Call::Done(_) => rep.class(format!("sentence|t{}|Err", t)),
            }
        }
    }
    // histories with mixed decode flags: an abandoned opener announcing type X (decoding on or
    // off), then a two-fragment group carrying type Y whose opener is parsed with the other
    // flag and whose final fragment is decoded: the variant follows Y's six bits alone
    for (xi, &xch) in crate::armor::ALPHABET.iter().enumerate() {
        if !ctx.mine(item) {
            item += 1;
            continue;
        }
        item += 1;
        for (yi, &ych) in crate::armor::ALPHABET.iter().enumerate() {
            let y = yi as u8;
            // payload of type Y: a valid message when Y is supported, random otherwise
            let brs: Vec<&gen::Branch> = gen::BRANCHES.iter().filter(|b| b.t == y).collect();
            let (chars, fill) = if brs.is_empty() {
                let mut c: Vec<u8> = (0..28).map(|_| *r.pick(crate::armor::ALPHABET)).collect();
                c[0] = ych;
                (c, 0u8)
            } else {
                gen::gen_message(*r.pick(&brs), &mut r).to_armor()
            };
            if chars.len() < 2 {
                continue;
            }
            let cut = r.usize(1, chars.len() - 1);
            let id = Some(((xi + yi) % 10) as u8);
            let flags = [(true, false), (false, true), (true, true), (false, false)][(xi + yi) % 4];
            let mut xpl = vec![xch];
            xpl.extend((0..9).map(|_| *r.pick(crate::armor::ALPHABET)));
            let hist: Vec<(Vec<u8>, bool)> = vec![
                (nmea_ref::mk(2, 1, id, &xpl, 0), flags.0),
                (nmea_ref::mk(2, 1, id, &chars[..cut], 0), flags.1),
                (nmea_ref::mk(2, 2, id, &chars[cut..], fill), true),
            ];
            let mut p = Parser::new();
            let mut last = None;
            for (l, d) in &hist {
                last = Some(p.parse(l, *d));
            }
            rep.eval();
            let want = variant_of(y);
            rep.class(format!("mixed-decode-history|t{}|flags{}{}", y, flags.0 as u8, flags.1 as u8));
            match last {
                Some(Call::Panic(pi)) => rep.violation(PID, format!("panic@{}", pi.loc), pi.msg.clone(), || mon::replay_history(&hist, "mixed-decode-history")),
                Some(Call::Done(Outcome::Complete(s))) => {
                    let v = s.message.as_ref().map(|m| m.variant);
                    if v != want || want.is_none() {
                        rep.violation(
                            PID,
                            format!("history-type-{}-wrong-variant", y),
                            format!("group whose payload starts with {:?} (type {}) decoded as {:?}, expected {:?}, after an abandoned opener starting with {:?}", ych as char, y, v, want, xch as char),
                            || mon::replay_history(&hist, "mixed-decode-history"),
                        );
                    }
                }
                Some(Call::Done(Outcome::Err(_))) => {
                    if !brs.is_empty() && !(mon::is_noalloc() && chars.len() > 384) {
                        // a valid message of a supported type must decode; in the no-allocator
                        // build only when its text / data fits (the judge knows the capacities)
                        let view = crate::armor::unarmored_bits(&chars, fill as usize).unwrap();
                        if let crate::val::RefOut::Msg(m) = crate::decode_ref::decode_ref(&view) {
                            if m.must_ok && !(mon::is_noalloc() && m.caps.over()) {
                                rep.violation(PID, format!("history-type-{}-rejected", y), format!("valid type {} group rejected after an abandoned opener starting with {:?}", y, xch as char), || mon::replay_history(&hist, "mixed-decode-history"));
                            }
                        }
                    }
                }
                _ => {}
            }
        }
    }
    // the odd but accepted line "fragment 1 of 0" (no sequence id) after a delivered, failed or
    // abandoned group: when it is decoded, the variant follows the six type bits of its own payload,
    // not anything left over from the group
    for (yi, &ych) in crate::armor::ALPHABET.iter().enumerate() {
        if !ctx.mine(item) {
            item += 1;
            continue;
        }
        item += 1;
        for zb in gen::BRANCHES.iter().filter(|b| b.len <= 424) {
            let (zchars, zfill) = gen::gen_message(zb, &mut r).to_armor();
            let mut g1 = vec![ych];
            g1.extend((0..r.usize(0, 30)).map(|_| *r.pick(crate::armor::ALPHABET)));
            let g2: Vec<u8> = (0..r.usize(1, 30)).map(|_| *r.pick(crate::armor::ALPHABET)).collect();
            let id = Some(((yi + zb.t as usize) % 10) as u8);
            let kind = (yi + zb.len) % 3;
            let mut hist: Vec<(Vec<u8>, bool)> = vec![(nmea_ref::mk(2, 1, id, &g1, 0), kind == 1)];
            if kind != 2 {
                // delivered (decode off) or delivery attempted with decoding (fails for most types)
                hist.push((nmea_ref::mk(2, 2, id, &g2, 0), kind == 1));
            }
            hist.push((nmea_ref::mk(0, 1, None, &zchars, zfill), true));
            let mut p = Parser::new();
            let mut last = None;
            for (l, d) in &hist {
                last = Some(p.parse(l, *d));
            }
            rep.eval();
            rep.class(format!("one-of-zero-after-group|t{}|{}", zb.t, ["delivered", "decode-attempted", "abandoned"][kind]));
            match last {
                Some(Call::Panic(pi)) => rep.violation(PID, format!("panic@{}", pi.loc), pi.msg.clone(), || mon::replay_history(&hist, "one-of-zero-after-group")),
                Some(Call::Done(Outcome::Complete(s))) => {
                    let v = s.message.as_ref().map(|m| m.variant);
                    // the line is not a continuation of anything (no group is open for "no id"), so
                    // what is decoded is this line's payload: the variant follows its six type bits
                    if v.is_some() && v != variant_of(zb.t) {
                        rep.violation(PID, format!("history-type-{}-wrong-variant", zb.t), format!("'1 of 0' line whose payload announces type {} decoded as {:?} after a group starting with {:?} (sentence data {} its own payload)", zb.t, v, ych as char, if s.data == zchars { "is" } else { "is not" }), || mon::replay_history(&hist, "one-of-zero-after-group"));
                    }
                }
                _ => {}
            }
        }
    }
    // conversations: 2..6 valid messages of random types on one parser, their station numbers all
    // drawn from a pool of two (an inquiry followed by a report of the station it was addressed to,
    // an addressed message followed by its acknowledgement ...): each line's variant follows its own
    // six type bits whatever was said before
    for ci in 0..ctx.budget(40_000, 600_000) {
        if !ctx.mine(ci) {
            continue;
        }
        let pool = [*r.pick(&gen::SPECIAL_MMSI) as u64, r.bits(30)];
        let mut p = Parser::new();
        let mut hist: Vec<(Vec<u8>, bool)> = Vec::new();
        // every ordered pair of types is met often: 21 x 21 pairs, budget / 441 repetitions each
        // the first conversations enumerate every ordered pair of layouts (8 draws of the station
        // numbers each); the rest are random and longer
        let nb = gen::BRANCHES.len() as u64;
        let pair = if ci < nb * nb * 8 { Some((((ci / 8) / nb) as usize, ((ci / 8) % nb) as usize)) } else { None };
        let n = if pair.is_some() { 2 } else { r.usize(2, 6) };
        for mi in 0..n {
            let b = match pair {
                Some((i, j)) => &gen::BRANCHES[if mi == 0 { i } else { j }],
                None => r.pick(gen::BRANCHES),
            };
            if b.len > 1008 {
                continue;
            }
            let (chars, fill) = super::c04::fresh_with_pool(b, &mut r, &pool).to_armor();
            if mon::is_noalloc() && chars.len() > 384 {
                continue;
            }
            let line = nmea_ref::mk(1, 1, None, &chars, fill);
            hist.push((line.clone(), true));
            rep.eval();
            match p.parse(&line, true) {
                Call::Panic(pi) => {
                    rep.violation(PID, format!("panic@{}", pi.loc), pi.msg.clone(), || mon::replay_history(&hist, "conversation"));
                    break;
                }
                Call::Done(Outcome::Complete(s)) => {
                    let v = s.message.as_ref().map(|m| m.variant);
                    let tf = s.message.as_ref().and_then(|m| m.get("message_type", 255).cloned());
                    if v.is_some() && v != variant_of(b.t) {
                        rep.violation(PID, format!("history-type-{}-wrong-variant", b.t), format!("type {} message decoded as {:?} in a conversation of {} messages between two stations", b.t, v, hist.len()), || mon::replay_history(&hist, "conversation"));
                        break;
                    }
                    if tf.is_some() && tf != Some(Val::U(b.t as u64)) {
                        rep.violation(PID, format!("type-{}-wrong-type-field", b.t), format!("type {} message reports message_type {:?} in a conversation", b.t, tf), || mon::replay_history(&hist, "conversation"));
                        break;
                    }
                }
                Call::Done(_) => {}
            }
        }
        if ci % 64 == 0 {
            rep.class(format!("conversation|len{}", n));
        }
    }
    // replayed deliveries: a pool of 3..5 deliverables (valid messages, valid bodies under an
    // unsupported type value, payloads with a byte outside the armoring alphabet, too-short ones;
    // each sent unfragmented, as "1 of 0" or as a group of 2..3 fragments) is delivered 4..10 times
    // in random order with repetitions, decoding requested every time (a static message that is
    // rebroadcast unchanged every few minutes, a corrupted group that is repeated): whatever is
    // decoded follows the six type bits of the payload just delivered, never an earlier delivery
    for ci in 0..ctx.budget(24_000, 400_000) {
        if !ctx.mine(ci) {
            continue;
        }
        struct Deliverable {
            lines: Vec<Vec<u8>>,
            t: u8,
            kind: &'static str,
        }
        let npool = r.usize(3, 5);
        let mut pool: Vec<Deliverable> = Vec::new();
        for di in 0..npool {
            let b = r.pick(gen::BRANCHES);
            if b.len > 1008 {
                continue;
            }
            let mut bits = gen::gen_message(b, &mut r);
            let kind = ["valid", "valid", "unsupported", "bad-armor", "bad-armor", "short"][r.usize(0, 5)];
            if kind == "unsupported" {
                bits.put(0, 6, *r.pick(&[0u64, 22, 28, 31, 32, 48, 63]));
            }
            let (mut chars, mut fill) = bits.to_armor();
            if kind == "short" {
                chars.truncate(r.usize(1, 6));
                fill = 0;
            }
            if kind == "bad-armor" && chars.len() > 2 {
                let at = r.usize(1, chars.len() - 1);
                chars[at] = *r.pick(&[b'x', b'X', b'~', b' ', b'/', b'Z', 0x80, b'_']);
            }
            if mon::is_noalloc() && chars.len() > 380 {
                continue;
            }
            let t = crate::armor::ALPHABET.iter().position(|c| *c == chars[0]).unwrap_or(0) as u8;
            let frags = if chars.len() < 4 { 1 } else { *r.pick(&[0usize, 1, 2, 2, 2, 3]) };
            let id = Some(((ci as usize + di) % 10) as u8);
            let lines = match frags {
                0 => vec![nmea_ref::mk(0, 1, None, &chars, fill)],
                1 => vec![nmea_ref::mk(1, 1, None, &chars, fill)],
                n => {
                    let mut cuts: Vec<usize> = (0..n - 1).map(|_| r.usize(1, chars.len() - 1)).collect();
                    cuts.sort();
                    cuts.dedup();
                    let total = cuts.len() + 1;
                    let mut out = Vec::new();
                    let mut from = 0;
                    for (k, to) in cuts.iter().cloned().chain(std::iter::once(chars.len())).enumerate() {
                        out.push(nmea_ref::mk(total as u8, (k + 1) as u8, id, &chars[from..to], if k + 1 == total { fill } else { 0 }));
                        from = to;
                    }
                    out
                }
            };
            pool.push(Deliverable { lines, t, kind });
        }
        if pool.is_empty() {
            continue;
        }
        let mut p = Parser::new();
        let mut hist: Vec<(Vec<u8>, bool)> = Vec::new();
        let mut prev = 0usize;
        let n = r.usize(4, 10);
        'deliveries: for di in 0..n {
            // two in five deliveries repeat the previous one
            let pick = if di > 0 && r.usize(0, 4) < 2 { prev } else { r.usize(0, pool.len() - 1) };
            let repeat = di > 0 && pick == prev;
            prev = pick;
            let d = &pool[pick];
            for l in &d.lines {
                hist.push((l.clone(), true));
                rep.eval();
                match p.parse(l, true) {
                    Call::Panic(pi) => {
                        rep.violation(PID, format!("panic@{}", pi.loc), pi.msg.clone(), || mon::replay_history(&hist, "replayed-deliveries"));
                        break 'deliveries;
                    }
                    Call::Done(Outcome::Complete(s)) => {
                        if let Some(m) = s.message.as_ref() {
                            let want = variant_of(d.t);
                            if want != Some(m.variant) {
                                rep.violation(
                                    PID,
                                    match want {
                                        None => format!("unsupported-type-{}-decoded", d.t),
                                        Some(_) => format!("history-type-{}-wrong-variant", d.t),
                                    },
                                    format!("delivery #{} of a history of replayed deliveries ({} payload announcing type {}) was decoded as {}", di + 1, d.kind, d.t, m.variant),
                                    || mon::replay_history(&hist, "replayed-deliveries"),
                                );
                                break 'deliveries;
                            }
                            if m.get("message_type", 255) != Some(&Val::U(d.t as u64)) {
                                rep.violation(PID, format!("type-{}-wrong-type-field", d.t), format!("message_type field {:?} for type bits {} in a history of replayed deliveries", m.get("message_type", 255), d.t), || mon::replay_history(&hist, "replayed-deliveries"));
                                break 'deliveries;
                            }
                            rep.count("replayed_deliveries_decoded");
                        }
                    }
                    Call::Done(_) => {}
                }
            }
            if ci % 64 == 0 {
                rep.class(format!("replayed|{}|{}-lines|{}", d.kind, d.lines.len(), if repeat { "repeat" } else { "other" }));
            }
        }
    }
    // payloads of 11 000 .. 350 000 characters (1.4 million in the thorough tier) under every type
    // value (std / alloc only: the no-allocator build cannot hold them): the variant is still
    // decided by the first six bits. The lengths lie beyond 2^16 bits, 2^16 bytes, 2^16 groups of
    // four characters and 2^21 bits, where narrow position counters of an unpacker wrap around.
    if !mon::is_noalloc() {
        let mut lens: Vec<usize> = vec![11_000, 87_400, 262_160, 350_000];
        if ctx.thorough() {
            lens.push(1_400_000);
        }
        for &len in &lens {
            for (i, &ch) in crate::armor::ALPHABET.iter().enumerate() {
                if !ctx.mine(item) {
                    item += 1;
                    continue;
                }
                item += 1;
                let t = i as u8;
                let mut chars: Vec<u8> = (0..len).map(|_| *r.pick(crate::armor::ALPHABET)).collect();
                chars[0] = ch;
                let line = nmea_ref::mk(1, 1, None, &chars, 0);
                rep.eval();
                let mut p = Parser::new();
                let want = variant_of(t);
                let what = format!("{}-character payload", len);
                match p.parse(&line, true) {
                    Call::Panic(pi) => rep.violation(PID, format!("panic@{}", pi.loc), format!("{} of type {}: {}", what, t, pi.msg), || J::s(&what)),
                    Call::Done(Outcome::Complete(s)) => {
                        let v = s.message.as_ref().map(|m| m.variant);
                        rep.class(format!("huge-sentence|{}|t{}|Ok", len, t));
                        let tf = s.message.as_ref().and_then(|m| m.get("message_type", 255).cloned());
                        if v != want || want.is_none() {
                            rep.violation(PID, format!("sentence-type-{}-wrong-variant", t), format!("{} with first character {:?} (type {}) decoded as {:?}, expected {:?}", what, ch as char, t, v, want), || J::s(&what));
                        } else if tf.is_some() && tf != Some(Val::U(t as u64)) {
                            rep.violation(PID, format!("type-{}-wrong-type-field", t), format!("{} with first character {:?}: message_type field {:?} for type bits {}", what, ch as char, tf, t), || J::s(&what));
                        }
                    }
                    Call::Done(_) => rep.class(format!("huge-sentence|{}|t{}|Err", len, t)),
                }
            }
        }
    }
    for t in crate::decode_ref::SUPPORTED {
        rep.require(&format!("type{}:Ok", t));
    }
    rep.require("type0:Err");
    rep.require("type63:Err");
    rep.extra.insert("exhaustive_type_values".into(), J::Bool(true));
    rep.sample(2, || {
        let mut o = J::obj();
        o.set("case", J::s("a valid 168-bit position report body transplanted under type value 22"));
        o.set("expected", J::s("Err"));
        o
    });
}
