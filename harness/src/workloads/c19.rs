//! C19 — the sentence-level message type equals the payload's 6-bit type.
//! Oracle: `armor::val` of the first payload character.

use super::common::*;
use crate::armor;
use crate::gen;
use crate::json::J;
use crate::mon::{self, Call, Ctx, Parser, Report};
use crate::nmea_ref::{self, Build};
use crate::observe::Outcome;
use crate::val::Val;

const PID: &str = "C19";

/// known-finding classifier name: reported type == first payload byte >> 2
pub const KF_ARMORED: &str = "KF:sentence-type-from-armored-byte";

pub fn run(ctx: &Ctx, rep: &mut Report) {
    let mut r = ctx.rng("c19");
    let mut agree = 0u64;
    let mut disagree = 0u64;
    let mut known = 0u64;
    for (i, &ch) in armor::ALPHABET.iter().enumerate() {
        if !ctx.mine(i as u64) {
            continue;
        }
        let want = armor::val(ch).unwrap();
        let shapes: [(&str, u8, u8); 4] = [("unfragmented", 1, 1), ("opener", 3, 1), ("continuation", 3, 2), ("final", 3, 3)];
        for (shape, n, k) in shapes {
            for variant in 0..ctx.budget(256, 2048) {
                let decode = variant % 2 == 1;
                // remainder: random armored text, or (decode on) a valid message of this type
                let mut payload: Vec<u8> = vec![ch];
                let br: Vec<&gen::Branch> = gen::BRANCHES.iter().filter(|b| b.t == want).collect();
                if decode && !br.is_empty() && n == 1 {
                    let bits = gen::gen_message(*r.pick(&br), &mut r);
                    payload = bits.to_armor().0;
                } else {
                    let extra = r.usize(0, 40);
                    payload.extend(armor_chars(&mut r, extra));
                }
                if variant % 16 == 7 {
                    payload.truncate(1); // a lone first character
                }
                let mut b = Build::simple(n, k, Some(2), b"A", &payload, (variant % 6) as u8);
                if variant % 4 == 2 {
                    b.tag = Some(b"c:1700000000".to_vec());
                }
                if variant % 8 == 4 {
                    b.delim = b'$';
                }
                let line = b.line();
                let mut p = Parser::new();
                let mut log = Vec::new();
                prime(&mut p, n, k, Some(2), &mut log);
                rep.eval();
                let c = p.parse(&line, decode);
                log.push((line.clone(), decode));
                let s = match c {
                    Call::Panic(pi) => {
                        rep.violation(PID, format!("panic@{}", pi.loc), pi.msg.clone(), || mon::replay_history(&log, shape));
                        continue;
                    }
                    Call::Done(Outcome::Complete(s)) | Call::Done(Outcome::Incomplete(s)) => s,
                    Call::Done(Outcome::Err(_)) => {
                        rep.count("rejected");
                        continue;
                    }
                };
                rep.sample(5, || {
                    let mut o = J::obj();
                    o.set("line", J::bytes(&line[..line.len().min(100)]));
                    o.set("shape", J::s(shape));
                    o.set("reference_type", J::i(want as u64));
                    o.set("observed_type", J::i(s.message_type as u64));
                    o
                });
                rep.class(format!("{}|{}", ch as char, shape));
                let mut ok = s.message_type == want;
                // cross-check with the decoded message's own type (unfragmented sentences)
                if let Some(m) = &s.message {
                    if n == 1 {
                        if let Some(Val::U(t)) = m.get("message_type", 255) {
                            if *t != s.message_type as u64 {
                                ok = false;
                            }
                        }
                    }
                }
                if ok {
                    agree += 1;
                    continue;
                }
                disagree += 1;
                let sig = if s.message_type == ch >> 2 && want != ch >> 2 {
                    known += 1;
                    format!("{}:{}={}", KF_ARMORED, ch, s.message_type)
                } else {
                    format!("wrong-type:{}", ch as char)
                };
                rep.violation(
                    PID,
                    sig,
                    format!("first payload character {:?} encodes type {}, sentence reports message_type {} ({} shape)", ch as char, want, s.message_type, shape),
                    || mon::replay_history(&log, shape),
                );
            }
        }
    }
    // decodable groups: a valid message split into 2-3 fragments, decoding on. The type of each
    // returned sentence is that of its *own* first payload character.
    for i in 0..ctx.budget(3_000, 60_000) {
        let br = r.pick(gen::BRANCHES);
        let (chars, fill) = gen::gen_message(br, &mut r).to_armor();
        if chars.len() < 6 {
            continue;
        }
        let n = r.range(2, 3) as u8;
        let mut cuts: Vec<usize> = Vec::new();
        while cuts.len() + 1 < n as usize {
            let c = r.usize(1, chars.len() - 1);
            if !cuts.contains(&c) {
                cuts.push(c);
            }
        }
        cuts.sort();
        cuts.push(chars.len());
        let mut p = Parser::new();
        let mut log = Vec::new();
        let mut prev = 0;
        for (j, c) in cuts.iter().enumerate() {
            let part = &chars[prev..*c];
            prev = *c;
            let k = (j + 1) as u8;
            let line = nmea_ref::mk(n, k, Some((i % 10) as u8), part, if k == n { fill } else { 0 });
            let decode = k == n || r.bool();
            rep.eval();
            let res = p.parse(&line, decode);
            log.push((line, decode));
            let s = match res {
                Call::Done(Outcome::Complete(s)) | Call::Done(Outcome::Incomplete(s)) => s,
                _ => break,
            };
            let ch = part[0];
            let want = armor::val(ch).unwrap();
            if s.message_type == want {
                agree += 1;
                continue;
            }
            disagree += 1;
            let sig = if s.message_type == ch >> 2 {
                known += 1;
                format!("{}:{}={}", KF_ARMORED, ch, s.message_type)
            } else {
                format!("wrong-type-in-decoded-group:{}", if k == n { "final" } else { "non-final" })
            };
            rep.class(format!("decoded-group|{}", if k == n { "final" } else { "non-final" }));
            rep.violation(
                PID,
                sig,
                format!("fragment {}/{} of a decodable group starts with {:?} (type {}), sentence reports message_type {}", k, n, ch as char, want, s.message_type),
                || mon::replay_history(&log, "decoded-group"),
            );
        }
    }
    rep.count_n("agree", agree);
    rep.count_n("disagree", disagree);
    rep.count_n("disagree_matching_known_signature", known);
    rep.extra.insert("exhaustive_first_characters".into(), J::Bool(true));
    rep.sample(2, || {
        let mut o = J::obj();
        o.set("line", J::bytes(&nmea_ref::mk(1, 1, None, b"E>kb9O9aS@7PUh10dh19@;0Tah2cWrfP:l?M`00003vP100", 0)));
        o.set("expected_message_type", J::i(21));
        o
    });
}
