//! C08 — exactly the well-formed sentence shapes are accepted.
//! Oracle: `nmea_ref::scan` (language membership); lines are made sequencing-neutral so
//! that a rejection can only stem from form or checksum.

use super::common::*;
use crate::json::J;
use crate::mon::{self, Call, Ctx, Parser, Report};
use crate::nmea_ref::{self, Build, Scan};
use crate::observe::Outcome;
use crate::rng::Rng;

const PID: &str = "C08";

/// returns the verdict string for the boundary table
pub fn judge(rep: &mut Report, line: &[u8], op: &str, field: &str) -> &'static str {
    rep.eval();
    let sc = nmea_ref::scan(line);
    let mut p = Parser::new();
    let mut log = Vec::new();
    let mut neutral = true;
    let mut over = false;
    if let Scan::Accept(f) = &sc {
        let in_domain = f.n >= 1 && f.k >= 1 && f.k <= f.n;
        if in_domain && f.k <= 40 {
            let acc = prime(&mut p, f.n, f.k, f.id, &mut log);
            over = mon::is_noalloc() && acc.len() + f.payload.len() > 384;
        } else {
            neutral = in_domain && f.k == 1 || f.n == 1 && f.k == 1;
        }
        if mon::is_noalloc() && f.payload.len() > 384 {
            over = true;
        }
    }
    let c = p.parse(line, false);
    log.push((line.to_vec(), false));
    let out = match c {
        Call::Panic(pi) => {
            rep.violation(PID, format!("panic@{}", pi.loc), format!("panic '{}' at {}", pi.msg, pi.loc), || mon::replay_history(&log, op));
            return "panic";
        }
        Call::Done(o) => o,
    };
    let refv = match &sc {
        Scan::Reject(_) => "reject",
        Scan::DontCare(_) => "dontcare",
        Scan::Accept(f) if f.tx != f.body_xor => "reject-checksum",
        Scan::Accept(_) => "accept",
    };
    match (&sc, &out) {
        (Scan::DontCare(_), _) => rep.count("dont_care"),
        (Scan::Reject(why), o) if o.is_ok() => {
            rep.violation(PID, format!("accepted:{}", why.replace(' ', "-")), format!("line outside the language ({}) accepted as {}: {}", why, o.canon(), crate::json::esc_bytes(line)), || mon::replay_history(&log, op));
        }
        (Scan::Accept(f), o) if f.tx != f.body_xor && o.is_ok() => {
            rep.violation(PID, "accepted:checksum-mismatch".into(), format!("checksum mismatch accepted: {}", crate::json::esc_bytes(line)), || mon::replay_history(&log, op));
        }
        (Scan::Accept(f), Outcome::Err(_)) if f.tx == f.body_xor => {
            if over {
                rep.count("noalloc_over_capacity");
            } else if !neutral {
                rep.count("not_neutral_unjudged");
            } else {
                rep.violation(PID, format!("rejected:{}:{}", op, field), format!("well-formed line with matching checksum rejected: {}", crate::json::esc_bytes(line)), || mon::replay_history(&log, op));
            }
        }
        _ => {}
    }
    rep.sample(6, || {
        let mut o = J::obj();
        o.set("operator", J::s(op));
        o.set("field", J::s(field));
        o.set("line", J::bytes(&line[..line.len().min(140)]));
        o.set("reference", J::s(refv));
        o.set("observed", J::s(out.kind()));
        o
    });
    rep.class(format!("{}|{}|{}", op, field, refv));
    rep.count(refv);
    refv
}

fn field_of(line: &[u8], pos: usize) -> &'static str {
    let start = match line.iter().position(|c| *c == b'!' || *c == b'$') {
        Some(s) => s,
        None => return "none",
    };
    if pos < start {
        return "tagblock";
    }
    if pos == start {
        return "delimiter";
    }
    let star = line.iter().rposition(|c| *c == b'*').unwrap_or(line.len());
    if pos == star {
        return "star";
    }
    if pos > star {
        return "checksum";
    }
    if pos <= start + 5 {
        return "address";
    }
    match line[start..pos].iter().filter(|c| **c == b',').count() {
        1 => "count",
        2 => "number",
        3 => "id",
        4 => "channel",
        5 => "payload",
        _ => "fill",
    }
}

const DICT: &[u8] = b",*!$\\0569AFGafg:\r\n\x00\x80\xff +-";

fn bases(r: &mut Rng, ctx: &Ctx) -> Vec<Vec<u8>> {
    let mut v: Vec<Vec<u8>> = nmea_ref::CORPUS.iter().map(|l| l.to_vec()).collect();
    v.push(nmea_ref::mk(1, 1, None, b"15RTgt0PAso;90TKcjM8h6g208CQ", 0));
    v.push(nmea_ref::mk(2, 1, Some(3), b"55P5TL01VIaAL@7WKO@mBplU@<PDhh000000001S;AJ::4A80?4i@E53", 0));
    v.push(nmea_ref::mk(2, 2, Some(3), b"1CQ", 2));
    let mut b = Build::simple(10, 1, Some(255), b"", b"w", 5);
    b.delim = b'$';
    b.hexstyle = 1;
    b.tail = b"\r\n".to_vec();
    v.push(b.line());
    let mut b = Build::simple(1, 1, Some(0), b"12", b"0", 0);
    b.tag = Some(b"g:1-2-73874,n:157036,s:r003669945,c:1241544035*4A".to_vec());
    b.hexstyle = 3;
    v.push(b.line());
    for _ in 0..if ctx.thorough() { 40 } else { 6 } {
        let mut b = random_build(r, 40);
        b.n = "1".into();
        b.k = "1".into();
        v.push(b.line());
    }
    v
}

pub fn boundary_table() -> Vec<(&'static str, Vec<u8>)> {
    let pl = b"15RTgt0PAso;90TKcjM8h6g208CQ";
    let mk = |f: &dyn Fn(&mut Build)| {
        let mut b = Build::simple(1, 1, None, b"A", pl, 0);
        f(&mut b);
        b.line()
    };
    let raw = |body: &str, tail: &str| {
        let x = nmea_ref::xor(body.as_bytes());
        format!("!{}*{:02X}{}", body, x, tail).into_bytes()
    };
    let mut t: Vec<(&'static str, Vec<u8>)> = Vec::new();
    t.push(("fill 5", mk(&|b| b.fill = "5".into())));
    t.push(("fill 6", mk(&|b| b.fill = "6".into())));
    t.push(("fill 05", mk(&|b| b.fill = "05".into())));
    t.push(("fill 06", mk(&|b| b.fill = "06".into())));
    t.push(("fill empty", mk(&|b| b.fill = "".into())));
    t.push(("fill -1", mk(&|b| b.fill = "-1".into())));
    t.push(("count 255", mk(&|b| { b.n = "255".into(); b.k = "1".into(); })));
    t.push(("count 256", mk(&|b| { b.n = "256".into(); b.k = "1".into(); })));
    t.push(("count 0255", mk(&|b| { b.n = "0255".into(); b.k = "1".into(); })));
    t.push(("count 0256", mk(&|b| { b.n = "0256".into(); b.k = "1".into(); })));
    t.push(("count empty", mk(&|b| b.n = "".into())));
    t.push(("number empty", mk(&|b| b.k = "".into())));
    t.push(("number 256", mk(&|b| { b.n = "255".into(); b.k = "256".into(); })));
    t.push(("id 255", mk(&|b| b.id = "255".into())));
    t.push(("id 256", mk(&|b| b.id = "256".into())));
    t.push(("id 0255", mk(&|b| b.id = "0255".into())));
    t.push(("id 0256", mk(&|b| b.id = "0256".into())));
    t.push(("id x", mk(&|b| b.id = "x".into())));
    t.push(("id +1", mk(&|b| b.id = "+1".into())));
    t.push(("id space", mk(&|b| b.id = " 1".into())));
    t.push(("count +1", mk(&|b| b.n = "+1".into())));
    t.push(("count 1 space", mk(&|b| b.n = "1 ".into())));
    t.push(("count arabic-indic digit", mk(&|b| b.n = "\u{0661}".into())));
    t.push(("payload 1 byte", mk(&|b| b.payload = b"1".to_vec())));
    t.push(("payload empty", mk(&|b| b.payload = vec![])));
    t.push(("checksum lower case", mk(&|b| b.hexstyle = 1)));
    t.push(("checksum unpadded", mk(&|b| { b.payload = b"1".to_vec(); b.hexstyle = 2; })));
    t.push(("checksum 8 digits", mk(&|b| b.hexstyle = 3)));
    t.push(("checksum 4 digits", mk(&|b| b.hexstyle = 4)));
    {
        let body = "AIVDM,1,1,,A,15RTgt0PAso;90TKcjM8h6g208CQ,0";
        let x = nmea_ref::xor(body.as_bytes());
        t.push(("checksum 9 digits (first eight read)", format!("!{}*0000000{:02X}", body, x).into_bytes()));
        t.push(("checksum 9 digits value in first eight", format!("!{}*000000{:02X}0", body, x).into_bytes()));
        t.push(("checksum 100", format!("!{}*100", body).into_bytes()));
        t.push(("checksum none", format!("!{}*", body).into_bytes()));
        t.push(("checksum non-hex", format!("!{}*ZZ", body).into_bytes()));
        t.push(("star missing", format!("!{}{:02X}", body, x).into_bytes()));
        t.push(("tail CRLF", raw(body, "\r\n")));
        t.push(("tail garbage after non-hex", raw(body, " garbage FF")));
        t.push(("tail comma field", raw(body, ",extra")));
        t.push(("dollar start", format!("${}*{:02X}", body, x).into_bytes()));
        t.push(("no start delimiter", format!("{}*{:02X}", body, x).into_bytes()));
        t.push(("leading space", format!(" !{}*{:02X}", body, x).into_bytes()));
        t.push(("leading garbage", format!("xx!{}*{:02X}", body, x).into_bytes()));
        t.push(("double delimiter", format!("!!{}*{:02X}", body, x).into_bytes()));
        t.push(("tag block", format!("\\s:1,c:2*00\\!{}*{:02X}", body, x).into_bytes()));
        t.push(("tag block unterminated", format!("\\s:1,c:2*00!{}*{:02X}", body, x).into_bytes()));
        t.push(("tag block missing opening backslash", format!("s:1,c:2*00\\!{}*{:02X}", body, x).into_bytes()));
        t.push(("tag block with bang and comma", format!("\\a!b,c$d\\!{}*{:02X}", body, x).into_bytes()));
        t.push(("tag block empty", format!("\\\\!{}*{:02X}", body, x).into_bytes()));
        t.push(("two tag blocks", format!("\\a\\\\b\\!{}*{:02X}", body, x).into_bytes()));
    }
    {
        // what tools that write, forward or display text put in front of a line: byte order marks,
        // control characters, terminal escapes, log prefixes. All of it is "leading garbage".
        let body = "AIVDM,1,1,,A,15RTgt0PAso;90TKcjM8h6g208CQ,0";
        let x = nmea_ref::xor(body.as_bytes());
        let good = format!("!{}*{:02X}", body, x).into_bytes();
        let tagged = format!("\\s:1,c:2*00\\!{}*{:02X}", body, x).into_bytes();
        let prefixes: [(&'static str, &[u8]); 16] = [
            ("prefix UTF-8 byte order mark", b"\xEF\xBB\xBF"),
            ("prefix UTF-16 LE byte order mark", b"\xFF\xFE"),
            ("prefix UTF-16 BE byte order mark", b"\xFE\xFF"),
            ("prefix NUL", b"\0"),
            ("prefix CR", b"\r"),
            ("prefix LF", b"\n"),
            ("prefix tab", b"\t"),
            ("prefix two spaces", b"  "),
            ("prefix non-breaking space", b"\xC2\xA0"),
            ("prefix zero-width space", b"\xE2\x80\x8B"),
            ("prefix ANSI reset", b"\x1b[0m"),
            ("prefix XON", b"\x11"),
            ("prefix unix time", b"1696241893.123 "),
            ("prefix bracketed date", b"[2023-10-02 10:18:13] "),
            ("prefix syslog", b"<13>Oct  2 10:18:13 host ais: "),
            ("prefix quote", b"\""),
        ];
        for (name, pre) in prefixes.iter() {
            let mut l = pre.to_vec();
            l.extend_from_slice(&good);
            t.push((name, l));
        }
        for (name, pre) in prefixes.iter().take(4) {
            let mut l = pre.to_vec();
            l.extend_from_slice(&tagged);
            t.push((name, l));
        }
    }
    t.push(("address 4 bytes", raw("AIVD,1,1,,A,15RTgt0PAso;90TKcjM8h6g208CQ,0", "")));
    t.push(("address 6 bytes", raw("AIVDMM,1,1,,A,15RTgt0PAso;90TKcjM8h6g208CQ,0", "")));
    t.push(("extra comma field", raw("AIVDM,1,1,,A,,15RTgt0PAso;90TKcjM8h6g208CQ,0", "")));
    t.push(("missing channel field", raw("AIVDM,1,1,,15RTgt0PAso;90TKcjM8h6g208CQ,0", "")));
    t.push(("missing fill field", raw("AIVDM,1,1,,A,15RTgt0PAso;90TKcjM8h6g208CQ", "")));
    t.push(("fill followed by junk", raw("AIVDM,1,1,,A,15RTgt0PAso;90TKcjM8h6g208CQ,0x", "")));
    t.push(("fill followed by comma", raw("AIVDM,1,1,,A,15RTgt0PAso;90TKcjM8h6g208CQ,0,", "")));
    t.push(("multi-byte channel", raw("AIVDM,1,1,,AB1,15RTgt0PAso;90TKcjM8h6g208CQ,0", "")));
    t.push(("empty line", vec![]));
    t.push(("only bang", b"!".to_vec()));
    t.push(("only star", b"*".to_vec()));
    t
}

pub fn run(ctx: &Ctx, rep: &mut Report) {
    let mut r = ctx.rng("c08");
    let bs = bases(&mut r, ctx);
    let mut item = 0u64;
    // (i) single-point mutations of valid sentences at every position
    for base in &bs {
        for pos in 0..=base.len() {
            if !ctx.mine(item) {
                item += 1;
                continue;
            }
            item += 1;
            let fld = if pos < base.len() { field_of(base, pos) } else { "end" };
            if pos < base.len() {
                let mut l = base.clone();
                l.remove(pos);
                judge(rep, &l, "delete", fld);
                let mut l = base.clone();
                l.insert(pos, base[pos]);
                judge(rep, &l, "duplicate", fld);
            }
            let set: Vec<u8> = if ctx.thorough() { (0..=255u8).collect() } else { DICT.to_vec() };
            for &d in &set {
                let mut l = base.clone();
                l.insert(pos, d);
                judge(rep, &l, "insert", fld);
                if pos < base.len() && base[pos] != d {
                    let mut l = base.clone();
                    l[pos] = d;
                    judge(rep, &l, "replace", fld);
                    // the same with the checksum re-fixed, so that form alone decides
                    refix_checksum(&mut l);
                    judge(rep, &l, "replace-refixed", fld);
                }
            }
            let mut l = base.clone();
            l.truncate(pos);
            judge(rep, &l, "truncate", fld);
        }
    }
    // whole-field operations on the comma-separated body
    for base in &bs {
        if !ctx.mine(item) {
            item += 1;
            continue;
        }
        item += 1;
        let start = match base.iter().position(|c| *c == b'!' || *c == b'$') {
            Some(s) => s,
            None => continue,
        };
        let star = match base.iter().rposition(|c| *c == b'*') {
            Some(s) => s,
            None => continue,
        };
        if star <= start {
            continue;
        }
        let fields: Vec<Vec<u8>> = base[start + 1..star].split(|c| *c == b',').map(|f| f.to_vec()).collect();
        let rebuild = |fs: &Vec<Vec<u8>>| -> Vec<u8> {
            let mut l = base[..=start].to_vec();
            l.extend_from_slice(&fs.join(&b","[..]));
            l.push(b'*');
            l.extend_from_slice(b"00");
            refix_checksum(&mut l);
            l
        };
        for i in 0..fields.len() {
            let mut f = fields.clone();
            f.remove(i);
            judge(rep, &rebuild(&f), "field-delete", "field");
            let mut f = fields.clone();
            f.insert(i, fields[i].clone());
            judge(rep, &rebuild(&f), "field-duplicate", "field");
            let mut f = fields.clone();
            f[i].clear();
            judge(rep, &rebuild(&f), "field-empty", "field");
            if i + 1 < fields.len() {
                let mut f = fields.clone();
                f.swap(i, i + 1);
                judge(rep, &rebuild(&f), "field-swap", "field");
            }
        }
    }
    // (ii) boundary table (shard 0 records the observed verdicts)
    if ctx.shard == 0 {
        let mut rows = Vec::new();
        for (name, line) in boundary_table() {
            let v = judge(rep, &line, "boundary", name);
            let mut p = Parser::new();
            let seen = call_kind(&p.parse(&line, false));
            let mut o = J::obj();
            o.set("row", J::s(name));
            o.set("reference", J::s(v));
            o.set("observed", J::s(seen));
            rows.push(o);
        }
        rep.extra.insert("boundary_table".into(), J::Arr(rows));
    }
    // (iii) grammar-generated lines with exactly one production violated, and valid ones
    for i in 0..ctx.budget(600_000, 6_000_000) {
        let mut b = random_build(&mut r, 120);
        let nn: u32 = b.n.parse().unwrap_or(1);
        let kk: u32 = b.k.parse().unwrap_or(1);
        if !(nn >= 1 && kk >= 1 && kk <= nn && kk <= 12) {
            b.n = "1".into();
            b.k = "1".into();
        }
        let op = match i % 12 {
            0 => {
                b.fill = r.range(6, 300).to_string();
                "viol-fill"
            }
            1 => {
                b.n = r.range(256, 99999).to_string();
                "viol-count"
            }
            2 => {
                b.id = r.range(256, 99999).to_string();
                "viol-id"
            }
            3 => {
                b.payload.clear();
                "viol-empty-payload"
            }
            4 => {
                b.k = String::new();
                "viol-empty-number"
            }
            5 => {
                b.delim = *r.pick(b"#@%&?;: ");
                "viol-delimiter"
            }
            6 => {
                b.k = format!("{}{}", b.k, *r.pick(b"xX+- .") as char);
                "viol-number-junk"
            }
            7 => {
                b.cks = Some(nmea_ref::xor(&b.body()) ^ (1 + r.below(255) as u8));
                "viol-checksum"
            }
            _ => "valid",
        };
        judge(rep, &b.line(), op, "*");
    }
    // (iii-b) the terminating '*' missing or misplaced, with digits chosen so that a parser
    // that looks for *some* '*' and reads hex right after the fill field would be satisfied
    for _ in 0..ctx.budget(3_000, 60_000) {
        let mut b = random_build(&mut r, 40);
        b.n = "1".into();
        b.k = "1".into();
        b.tag = None;
        b.fill = r.below(6).to_string();
        let body = b.body();
        // find hex digits h (first one a letter, so the fill number ends before it) with
        // xor(body + h) == value(h): "<body>HH*" then looks like a body with checksum HH
        for v in 0..=255u32 {
            let h = format!("{:02X}", v);
            if !h.as_bytes()[0].is_ascii_alphabetic() {
                continue;
            }
            let mut cand = body.clone();
            cand.extend_from_slice(h.as_bytes());
            if nmea_ref::xor(&cand) as u32 == v {
                let mut l = vec![b.delim];
                l.extend_from_slice(&cand);
                l.push(b'*');
                judge(rep, &l, "star-after-checksum", "star");
                l.extend_from_slice(h.as_bytes());
                judge(rep, &l, "star-after-checksum-repeated", "star");
                break;
            }
        }
        // '*' replaced by another separator
        for sep in [b',', b' ', b'#', b'\\'] {
            let mut l = b.line();
            if let Some(p) = l.iter().rposition(|c| *c == b'*') {
                l[p] = sep;
                judge(rep, &l, "star-replaced", "star");
            }
        }
    }
    // (iii-c) header numbers written with many digits: values at and just past the points where
    // an 8/16/32/64/128-bit accumulator wraps, chosen so that the wrapped value would be a
    // perfectly acceptable small number (and the same digits behind leading zeros)
    {
        let pows: [u128; 5] = [1 << 8, 1 << 16, 1 << 32, 1 << 64, u128::MAX];
        let mut item = 0u64;
        for fld in 0..4usize {
            for (pi, p) in pows.iter().enumerate() {
                for small in 0u128..8 {
                    for zeros in [0usize, 1, 3, 9] {
                        if !ctx.mine(item) {
                            item += 1;
                            continue;
                        }
                        item += 1;
                        let digits: Vec<String> = if pi == 4 {
                            // 2^128 + small (39 digits) written out by hand, and 2^128 - 1 - small
                            vec![format!("340282366920938463463374607431768211{}", 456 + small), format!("{}", u128::MAX - small)]
                        } else {
                            vec![format!("{}", p + small), format!("{}", p * 2 + small), format!("{}", p - 1 - small), format!("{}", p * 10 + small)]
                        };
                        for d in digits {
                            let s = format!("{}{}", "0".repeat(zeros), d);
                            let val: Option<u128> = d.parse().ok();
                            let mut b = Build::simple(1, 1, None, b"A", b"15RTgt0PAso;90TKcjM8h6g208CQ", 0);
                            match fld {
                                0 => {
                                    b.n = s;
                                    // a wrapped count of 2.. would wait for more fragments: keep k = 1
                                }
                                1 => {
                                    b.n = "9".into();
                                    b.k = s;
                                }
                                2 => b.id = s,
                                _ => b.fill = s,
                            }
                            let within = val.map_or(false, |v| v <= 255);
                            judge(rep, &b.line(), if within { "wide-number-in-range" } else { "wide-number" }, ["count", "number", "id", "fill"][fld]);
                        }
                    }
                }
            }
        }
    }
    // (iii-d) small values behind long runs of leading zeros (every run length 0..=48, then the
    // lengths around 64, 128, 255/256, 1000, 4096, 65 536 and a million digits) in each of the
    // four numeric fields: the value is what counts, not the number of digits it is written with
    {
        let mut runs: Vec<usize> = (0..=48).collect();
        runs.extend_from_slice(&[63, 64, 65, 100, 127, 128, 129, 254, 255, 256, 257, 999, 1000, 4095, 4096, 65_535, 65_536]);
        if !mon::is_noalloc() || ctx.thorough() {
            runs.push(1_000_000);
        }
        let mut item = 0u64;
        for zeros in runs {
            for fld in 0..4usize {
                if !ctx.mine(item) {
                    item += 1;
                    continue;
                }
                item += 1;
                let values: &[u32] = match fld {
                    0 => &[1, 0, 2, 9, 10, 99, 100, 255, 256, 300],
                    1 => &[1, 0, 2, 9, 10, 255, 256],
                    2 => &[0, 1, 9, 10, 99, 100, 255, 256, 1000],
                    _ => &[0, 1, 5, 6, 9, 10],
                };
                for v in values {
                    let s = format!("{}{}", "0".repeat(zeros), v);
                    let mut b = Build::simple(1, 1, None, b"A", b"15RTgt0PAso;90TKcjM8h6g208CQ", 0);
                    match fld {
                        0 => b.n = s,
                        1 => {
                            b.n = "255".into();
                            b.k = s;
                        }
                        2 => b.id = s,
                        _ => b.fill = s,
                    }
                    judge(rep, &b.line(), if zeros > 12 { "long-zero-run" } else { "zero-run" }, ["count", "number", "id", "fill"][fld]);
                }
            }
        }
    }
    // (iii-e) valid UTF-8 text with a multi-byte character at every offset 0 ..= 300 and around
    // every power of two up to 65 536, behind nothing, a sentence head, a tag block, a comment sign
    // or a log time stamp: what the line is (rejected, as a rule) must not depend on where the wide
    // character sits - error paths that quote the input cut it somewhere
    {
        let wide: [&str; 4] = ["\u{e9}", "\u{f8}", "\u{20ac}", "\u{1f600}"];
        let mut offsets: Vec<usize> = (0..=300).collect();
        let mut p2 = 512usize;
        while p2 <= 65_536 {
            offsets.extend_from_slice(&[p2 - 3, p2 - 2, p2 - 1, p2]);
            p2 *= 2;
        }
        let mut item = 0u64;
        for off in offsets {
            if !ctx.mine(item) {
                item += 1;
                continue;
            }
            item += 1;
            for w in wide {
                for head in ["", "!AIVDM,1,1,,A,", "\\c:1\\!AIVDM,", "# ", "2024-05-01T12:00:00Z \\s:"] {
                    let mut l = String::from(head);
                    while l.len() < off {
                        l.push((b'a' + (l.len() % 26) as u8) as char);
                    }
                    for _ in 0..r.usize(1, 3) {
                        l.push_str(w);
                    }
                    l.push_str(if off % 2 == 0 { ",0*00 tail" } else { " tail without a star" });
                    judge(rep, l.as_bytes(), "wide-character-at-offset", "*");
                }
            }
        }
    }
    // (iv) random bytes
    for _ in 0..ctx.budget(100_000, 1_000_000) {
        let n = r.usize(0, 120);
        let l = r.bytes(n);
        judge(rep, &l, "random-bytes", "*");
    }
    rep.require("accept");
    rep.require("reject");
    rep.sample(3, || {
        let mut o = J::obj();
        o.set("line", J::bytes(b"!AIVDM,1,1,,A,15RTgt0PAso;90TKcjM8h6g208CQ,6*4C"));
        o.set("reference", J::s("reject (fill count 6)"));
        o
    });
}
