//! C02 — checksum gate. Oracle: `nmea_ref::scan` (form) + XOR of the bytes strictly
//! between the start delimiter and the first following '*'.

use super::common::*;
use crate::json::J;
use crate::mon::{self, Call, Ctx, Parser, Report};
use crate::nmea_ref::{self, Build, Scan};
use crate::observe::{ErrKind, Outcome};
use crate::rng::Rng;

const PID: &str = "C02";

const MAX_NOALLOC_PAYLOAD: usize = 384;

/// Judge one line fed to `p` (whatever its state). `neutral`: the caller guarantees that
/// sequencing cannot reject this line if it is well-formed with a matching checksum.
pub fn judge_line(rep: &mut Report, p: &mut Parser, prior: &[(Vec<u8>, bool)], line: &[u8], decode: bool, shape: &str, state: &str, poscls: &str) {
    rep.eval();
    let sc = nmea_ref::scan(line);
    let c = p.parse(line, decode);
    let hist = |prior: &[(Vec<u8>, bool)]| {
        let mut h: Vec<(Vec<u8>, bool)> = prior.to_vec();
        h.push((line.to_vec(), decode));
        h
    };
    let out = match c {
        Call::Panic(pi) => {
            let h = hist(prior);
            rep.violation(PID, format!("panic@{}", pi.loc), format!("panic '{}' at {}", pi.msg, pi.loc), || mon::replay_history(&h, shape));
            return;
        }
        Call::Done(o) => o,
    };
    let verdict;
    match &sc {
        Scan::DontCare(_) => {
            rep.count("dont_care");
            verdict = "dontcare";
        }
        Scan::Reject(_) => {
            verdict = "reject";
            // whether a malformed line may be accepted at all is C08's question; C02 only says
            // that nothing is accepted unless the value after the first '*' equals the XOR of
            // the bytes between the start delimiter and that '*'
            if out.is_ok() && checksum_relation(line) != Some(true) {
                let h = hist(prior);
                rep.violation(PID, "accepted-without-matching-checksum".into(), format!("accepted although no matching checksum follows the body: {}", crate::json::esc_bytes(line)), || mon::replay_history(&h, shape));
            }
        }
        Scan::Accept(f) => {
            let over = mon::is_noalloc() && f.payload.len() > MAX_NOALLOC_PAYLOAD;
            if f.tx != f.body_xor {
                verdict = "mismatch";
                if over {
                    rep.count("noalloc_over_capacity");
                    if out.is_ok() {
                        let h = hist(prior);
                        rep.violation(PID, "bad-checksum-accepted".into(), "over-capacity line with wrong checksum accepted".into(), || mon::replay_history(&h, shape));
                    }
                } else {
                    let want = Outcome::Err(ErrKind::Checksum { expected: f.tx, found: f.body_xor });
                    if out != want {
                        let sig = if out.is_ok() { "bad-checksum-accepted" } else { "wrong-checksum-error" };
                        let h = hist(prior);
                        rep.violation(
                            PID,
                            sig.into(),
                            format!(
                                "transmitted 0x{:02X}, body XOR 0x{:02X}: expected Checksum{{expected: {}, found: {}}}, observed {} for {}",
                                f.tx, f.body_xor, f.tx, f.body_xor, out.canon(), crate::json::esc_bytes(line)
                            ),
                            || mon::replay_history(&h, shape),
                        );
                    }
                }
            } else {
                verdict = "match";
                if let Outcome::Err(ErrKind::Checksum { expected, found }) = &out {
                    let h = hist(prior);
                    rep.violation(
                        PID,
                        "good-checksum-rejected".into(),
                        format!("values agree (0x{:02X}) but Checksum{{expected: {}, found: {}}} returned for {}", f.tx, expected, found, crate::json::esc_bytes(line)),
                        || mon::replay_history(&h, shape),
                    );
                }
            }
        }
    }
    rep.sample(5, || {
        let mut o = J::obj();
        o.set("line", J::bytes(&line[..line.len().min(140)]));
        o.set("shape", J::s(shape));
        o.set("parser_state", J::s(state));
        o.set("reference", J::s(verdict));
        o.set("observed", J::s(&out.canon()[..out.canon().len().min(80)]));
        o
    });
    rep.class(format!("{}|{}|{}|{}", shape, state, poscls, verdict));
    rep.count(verdict);
}

/// C02's relation on an arbitrary line: XOR of the bytes strictly between the first start
/// delimiter (after an optional tag block) and the first following '*', against the hex value
/// after that '*' (first eight digits). None when there is no delimiter, '*' or hex value.
fn checksum_relation(line: &[u8]) -> Option<bool> {
    let mut start = 0;
    if line.first() == Some(&b'\\') {
        start = 1 + line[1..].iter().position(|c| *c == b'\\')? + 1;
    }
    if !matches!(line.get(start), Some(b'!') | Some(b'$')) {
        return None;
    }
    let body_start = start + 1;
    let star = body_start + line[body_start..].iter().position(|c| *c == b'*')?;
    let digits: Vec<u32> = line[star + 1..].iter().map_while(|c| (*c as char).to_digit(16)).take(8).collect();
    if digits.is_empty() {
        return None;
    }
    let v = digits.iter().fold(0u64, |a, d| a * 16 + *d as u64);
    if v > 0xff {
        return None;
    }
    Some(nmea_ref::xor(&line[body_start..star]) as u64 == v)
}

fn position_class(line: &[u8], pos: usize) -> &'static str {
    // classify by structure of the (valid) base line
    let start = line.iter().position(|c| *c == b'!' || *c == b'$').unwrap_or(0);
    if pos < start {
        return "tagblock";
    }
    if pos == start {
        return "delimiter";
    }
    let star = line.iter().rposition(|c| *c == b'*').unwrap_or(line.len());
    if pos == star {
        return "star";
    }
    if pos > star {
        return if pos <= star + 2 { "checksum-digit" } else { "tail" };
    }
    if pos <= start + 5 {
        return "address";
    }
    let commas = line[start..pos].iter().filter(|c| **c == b',').count();
    if line[pos] == b',' {
        return "comma";
    }
    match commas {
        1 | 2 | 3 => "numeric-field",
        4 => "channel",
        5 => "payload",
        _ => "fill",
    }
}

/// random prior history leaving the parser in some state class
fn prior_state(r: &mut Rng, p: &mut Parser, log: &mut Vec<(Vec<u8>, bool)>) -> &'static str {
    let mut feed = |p: &mut Parser, log: &mut Vec<(Vec<u8>, bool)>, l: Vec<u8>| {
        let _ = p.parse(&l, false);
        log.push((l, false));
    };
    match r.below(4) {
        0 => "fresh",
        1 => {
            feed(p, log, nmea_ref::mk(3, 1, Some(4), &uniq_payload(1), 0));
            feed(p, log, nmea_ref::mk(3, 2, Some(4), &uniq_payload(2), 0));
            "open"
        }
        2 => {
            feed(p, log, nmea_ref::mk(2, 1, Some(4), &uniq_payload(1), 0));
            feed(p, log, nmea_ref::mk(2, 2, Some(4), &uniq_payload(2), 0));
            "delivered"
        }
        _ => {
            feed(p, log, nmea_ref::mk(2, 1, None, &uniq_payload(1), 0));
            "open-noid"
        }
    }
}

pub fn run(ctx: &Ctx, rep: &mut Report) {
    let mut r = ctx.rng("c02");
    // (a) bodies from the grammar generator x all 256 transmitted values x hex styles
    let bodies = ctx.budget(2500, 30_000);
    for bi in 0..bodies {
        let mut b: Build = random_build(&mut r, 120);
        b.tail.clear();
        // sequencing-neutral shapes: unfragmented, opener, or continuation after priming
        let shape = match bi % 3 {
            0 => {
                b.n = "1".into();
                b.k = "1".into();
                "unfragmented"
            }
            1 => {
                b.n = "3".into();
                b.k = "1".into();
                "opener"
            }
            _ => {
                b.n = "3".into();
                b.k = "2".into();
                b.id = "5".into();
                "continuation"
            }
        };
        // special bodies: XOR 0x00 / 0xFF / equal nibbles; first/last body byte varied
        match r.below(6) {
            0 => {
                // make the body XOR zero by choosing the last payload byte
                let x = nmea_ref::xor(&b.body());
                if let Some(last) = b.payload.last_mut() {
                    let nb = *last ^ x;
                    if nb != b',' && nb != b'*' {
                        *last = nb;
                    }
                }
            }
            1 => {
                let x = nmea_ref::xor(&b.body()) ^ 0xff;
                if let Some(last) = b.payload.last_mut() {
                    let nb = *last ^ x;
                    if nb != b',' && nb != b'*' {
                        *last = nb;
                    }
                }
            }
            2 => b.talker[0] = field_byte(&mut r),
            _ => {}
        }
        for tx in 0..=255u8 {
            b.cks = Some(tx);
            b.hexstyle = ((tx as u64 + bi) % 5) as u8;
            if (tx as u64 + bi) % 11 == 0 {
                // over-long checksum fields: only the first eight digits are read, so the
                // value is whatever those say, not the low digits
                let long = match (tx / 11) % 4 {
                    0 => format!("1{:08X}", tx),
                    1 => format!("{:09X}", tx),
                    2 => format!("{:02X}0000000", tx),
                    _ => format!("F00000000{:02X}", tx),
                };
                let body = b.body();
                let mut l = Vec::new();
                if let Some(t) = &b.tag {
                    l.push(b'\\');
                    l.extend_from_slice(t);
                    l.push(b'\\');
                }
                l.push(b.delim);
                l.extend_from_slice(&body);
                l.push(b'*');
                l.extend_from_slice(long.as_bytes());
                let mut p2 = Parser::new();
                judge_line(rep, &mut p2, &[], &l, false, shape, "fresh", "long-checksum");
            }
            let mut p = Parser::new();
            let mut log = Vec::new();
            let state = if shape == "continuation" {
                let l = nmea_ref::mk(3, 1, Some(5), &uniq_payload(9), 0);
                let _ = p.parse(&l, false);
                log.push((l, false));
                "primed"
            } else if tx % 4 == 0 {
                prior_state(&mut r, &mut p, &mut log)
            } else {
                "fresh"
            };
            let line = b.line();
            judge_line(rep, &mut p, &log, &line, (tx & 1) == 1, shape, state, "checksum-value");
        }
    }
    // (b) every single-byte corruption at every position of the corpus and generated groups
    let mut corpus: Vec<Vec<u8>> = nmea_ref::CORPUS.iter().map(|l| l.to_vec()).collect();
    for p in nmea_ref::PAYLOADS.iter().take(if ctx.thorough() { 40 } else { 8 }) {
        corpus.push(nmea_ref::mk(1, 1, None, p, 0));
    }
    corpus.push(nmea_ref::mk(2, 1, Some(3), b"55P5TL01VIaAL@7WKO@mBplU@<PDhh000000001S;AJ::4A80?4i@E53", 0));
    const REPL: [u8; 8] = [b'*', b',', b'!', b'5', b'F', b'a', 0x00, 0xff];
    let mut idx = 0u64;
    for base in &corpus {
        for pos in 0..base.len() {
            if !ctx.mine(idx) {
                idx += 1;
                continue;
            }
            idx += 1;
            let poscls = position_class(base, pos);
            let reps: Vec<u8> = if ctx.thorough() { (0..=255u8).collect() } else { REPL.to_vec() };
            for nb in reps {
                if nb == base[pos] {
                    continue;
                }
                let mut l = base.clone();
                l[pos] = nb;
                let mut p = Parser::new();
                let mut log = Vec::new();
                let state = if nb % 2 == 0 { prior_state(&mut r, &mut p, &mut log) } else { "fresh" };
                judge_line(rep, &mut p, &log, &l, true, "corpus-corruption", state, poscls);
            }
            // XOR-preserving double corruption must still be judged by the values alone
            if pos + 1 < base.len() {
                let mut l = base.clone();
                l[pos] ^= 0x01;
                l[pos + 1] ^= 0x01;
                let mut p = Parser::new();
                judge_line(rep, &mut p, &[], &l, false, "corpus-double-flip", "fresh", poscls);
            }
        }
    }
    // (c) a perfect *next* fragment with a wrong checksum must not be accepted and the
    // group must still complete afterwards (the gate sits before any state change)
    for _ in 0..ctx.budget(20_000, 300_000) {
        let n = r.range(2, 5) as u8;
        let id = if r.bool() { Some(r.below(10) as u8) } else { None };
        let mut p = Parser::new();
        let mut log: Vec<(Vec<u8>, bool)> = Vec::new();
        let bad_at = r.range(1, n as u64) as u8;
        for k in 1..=n {
            let pl = uniq_payload(k as u64);
            if k == bad_at {
                // the fragment itself, or (for k > 1) an opener with the same / no id
                let (hn, hk, hid) = match (k > 1, r.below(3)) {
                    (true, 1) => (n, 1, id),
                    (true, 2) => (3, 1, None),
                    _ => (n, k, id),
                };
                let mut b = Build::simple(hn, hk, hid, b"B", &pl, 0);
                let good = nmea_ref::xor(&b.body());
                b.cks = Some(good ^ (1 << r.below(8)));
                let l = b.line();
                judge_line(rep, &mut p, &log, &l, false, "fragment-bad-checksum", "in-group", "checksum-value");
                log.push((l, false));
            }
            let l = nmea_ref::mk(n, k, id, &pl, 0);
            rep.eval();
            match p.parse(&l, false) {
                Call::Done(o) => {
                    let want_complete = k == n;
                    let ok = match (&o, want_complete) {
                        (Outcome::Complete(_), true) | (Outcome::Incomplete(_), false) => true,
                        _ => false,
                    };
                    if !ok {
                        let mut h = log.clone();
                        h.push((l.clone(), false));
                        rep.violation(PID, "group-disturbed-by-bad-checksum".into(), format!("fragment {}/{} after a rejected bad-checksum twin returned {}", k, n, o.canon()), || mon::replay_history(&h, "fragment-bad-checksum"));
                    }
                }
                Call::Panic(pi) => {
                    let mut h = log.clone();
                    h.push((l.clone(), false));
                    rep.violation(PID, format!("panic@{}", pi.loc), pi.msg.clone(), || mon::replay_history(&h, "fragment-bad-checksum"));
                }
            }
            log.push((l, false));
        }
    }
    // (d) long bodies: the checksummed region extends to the first '*' however far away it is.
    // The length sits in the channel field (kept by no build, so the no-allocator build takes
    // these lines too), in a tag-less payload (std / alloc) or in front of the body (tag block).
    // Transmitted value: the XOR of the whole body, the XOR of a prefix of 2^k - 1 / 2^k bytes
    // (what a bounded scan would compute), or one bit off.
    {
        let mut item = 0u64;
        let mut lens: Vec<usize> = vec![255, 256, 257, 4095, 4096, 4097, 65_534, 65_535, 65_536, 65_537, 131_072];
        if ctx.thorough() {
            lens.extend_from_slice(&[16_383, 16_384, 32_767, 32_768, 32_769, 262_143, 262_144, 262_145, 1_048_577]);
        }
        for &len in &lens {
            for place in 0..3u8 {
                if !ctx.mine(item) {
                    item += 1;
                    continue;
                }
                item += 1;
                if place == 1 && mon::is_noalloc() {
                    continue;
                }
                let filler: Vec<u8> = (0..len).map(|_| *r.pick(crate::armor::ALPHABET)).collect();
                let mut b = Build::simple(1, 1, None, b"A", b"15RTgt0PAso;90TKcjM8h6g208CQ", 0);
                match place {
                    0 => b.chan = filler,
                    1 => b.payload = filler,
                    _ => b.tag = Some(filler),
                }
                let body = b.body();
                let whole = nmea_ref::xor(&body);
                let mut txs: Vec<u8> = vec![whole, whole ^ 0x01, whole ^ 0x80];
                let mut k = 128usize;
                while k <= body.len() {
                    txs.push(nmea_ref::xor(&body[..k - 1]));
                    txs.push(nmea_ref::xor(&body[..k]));
                    k *= 2;
                }
                for tx in txs {
                    b.cks = Some(tx);
                    let mut p = Parser::new();
                    let shape = ["long-channel", "long-payload", "long-tag-block"][place as usize];
                    judge_line(rep, &mut p, &[], &b.line(), false, shape, "fresh", if len >= 65_535 { "body>=64KiB" } else { "body<64KiB" });
                }
            }
        }
    }
    // (e) std build only: single lines whose body is around 2^28 and 2^29 bytes (2^30, 2^31 and
    // 2^32 in the thorough tier), where a bit count of the body or a 31/32-bit index wraps. The
    // bulk sits in the channel field and is pseudo-random, so that leaving any stretch of it out
    // of the XOR changes the value. Transmitted: the XOR of the whole body (must be accepted), one
    // bit off, and the XOR of the body without its first 2^28 / 2^29 / ... bytes (must be
    // Checksum errors naming both values).
    if mon::CFG == "std" {
        let mut item = 500u64;
        let mut sizes: Vec<usize> = Vec::new();
        for base in [1usize << 28, 1 << 29] {
            for d in [-1i64, 0, 1, 7, 8, 9, 64] {
                sizes.push((base as i64 + d) as usize);
            }
        }
        if ctx.thorough() {
            sizes.extend_from_slice(&[(1 << 30) + 3, (1 << 31) - 1, (1 << 31) + 5, (1usize << 32) + 11]);
        }
        for &bulk in &sizes {
            if !ctx.mine(item) {
                item += 1;
                continue;
            }
            item += 1;
            const HEAD: &[u8] = b"AIVDM,1,1,,";
            const TAIL: &[u8] = b",15RTgt0PAso;90TKcjM8h6g208CQ,0";
            let mut line: Vec<u8> = Vec::with_capacity(bulk + 64);
            line.push(b'!');
            line.extend_from_slice(HEAD);
            let mut x = 0x9E37_79B9_7F4A_7C15u64 ^ (bulk as u64) ^ r.below(1 << 30);
            line.extend((0..bulk).map(|_| {
                x = x.wrapping_mul(6364136223846793005).wrapping_add(1442695040888963407);
                crate::armor::ALPHABET[(x >> 58) as usize]
            }));
            line.extend_from_slice(TAIL);
            let body_end = line.len();
            let whole = nmea_ref::xor(&line[1..body_end]);
            let mut txs: Vec<(u8, &str)> = vec![(whole, "whole"), (whole ^ 0x10, "one-bit-off")];
            let mut skip = 1usize << 28;
            while skip <= bulk {
                txs.push((nmea_ref::xor(&line[1..HEAD.len() + 1]) ^ nmea_ref::xor(&line[HEAD.len() + 1 + skip..body_end]), "stretch-left-out"));
                // what a word-wise fold with a wrapped bit count computes: the first
                // (len mod skip) / 8 words and the last len % 8 bytes
                let blen = body_end - 1;
                let words = (blen % skip) / 8 * 8;
                txs.push((nmea_ref::xor(&line[1..1 + words]) ^ nmea_ref::xor(&line[body_end - blen % 8..body_end]), "wrapped-word-count"));
                skip *= 2;
            }
            for (tx, what) in txs {
                line.truncate(body_end);
                line.extend_from_slice(format!("*{:02X}", tx).as_bytes());
                let desc = format!("line with a channel field of {} pseudo-random armoring characters, body XOR 0x{:02X}, transmitted 0x{:02X} ({})", bulk, whole, tx, what);
                rep.eval();
                rep.class(format!("giant-line|2^{}|{}", (usize::BITS - 1 - bulk.leading_zeros()).max(28), if tx == whole { "match" } else { "mismatch" }));
                rep.count("giant-lines");
                let mut p = Parser::new();
                mon::allow(line.len());
                match p.parse(&line, false) {
                    Call::Panic(pi) => rep.violation(PID, format!("panic@{}", pi.loc), format!("{}: panic '{}'", desc, pi.msg), || J::s(&desc)),
                    Call::Done(out) => {
                        if tx == whole {
                            rep.count("match");
                            if !out.is_ok() {
                                rep.violation(PID, "good-checksum-rejected".into(), format!("{}: observed {}", desc, out.canon().chars().take(120).collect::<String>()), || J::s(&desc));
                            }
                        } else {
                            rep.count("mismatch");
                            let want = Outcome::Err(ErrKind::Checksum { expected: tx, found: whole });
                            if out != want {
                                let sig = if out.is_ok() { "bad-checksum-accepted" } else { "wrong-checksum-error" };
                                rep.violation(PID, sig.into(), format!("{}: expected Checksum{{expected: {}, found: {}}}, observed {}", desc, tx, whole, out.canon().chars().take(120).collect::<String>()), || J::s(&desc));
                            }
                        }
                    }
                }
            }
        }
    }
    rep.require("match");
    rep.require("mismatch");
    rep.require("reject");
    rep.sample(3, || {
        let mut b = Build::simple(1, 1, None, b"A", b"15RTgt0PAso;90TKcjM8h6g208CQ", 0);
        b.cks = Some(0x13);
        let mut o = J::obj();
        o.set("line", J::bytes(&b.line()));
        o.set("expected", J::s("Err(Checksum{expected: 0x13, found: body XOR})"));
        o
    });
}
