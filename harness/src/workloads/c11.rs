//! C11 — 'not available' codes, and only those, decode to an absent value.
//! Oracle: sentinel table at the field's own resolution (inside `decode_ref`).

use super::c04::{fresh, via_for};
use crate::bits::Bits;
use crate::decode_ref::decode_ref;
use crate::gen::{self, Branch};
use crate::json::J;
use crate::mon::{Ctx, Report};
use crate::rng::Rng;
use crate::val::*;

const PID: &str = "C11";

/// raw (unsigned) representation of the 'not available' code of a field
pub fn sentinel_of(key: &str, width: usize) -> Option<u64> {
    let mask = |v: i64| (v as u64) & ((1u64 << width) - 1);
    Some(match (key, width) {
        ("longitude", 28) => mask(108_600_000),
        ("longitude", 18) => mask(108_600),
        ("latitude", 27) => mask(54_600_000),
        ("latitude", 17) => mask(54_600),
        ("speed_over_ground", 10) => 1023,
        ("speed_over_ground", 6) => 63,
        ("course_over_ground", 12) => 3600,
        ("course_over_ground", 9) => 511,
        ("true_heading", _) => 511,
        ("altitude", _) => 4095,
        ("year", _) | ("month", _) | ("day", _) | ("eta_month_utc", _) | ("eta_day_utc", _) => 0,
        ("minute", _) | ("second", _) | ("eta_minute_utc", _) => 60,
        ("st.msg.offset", _) => 0,
        ("rate_of_turn", _) => 0x80,
        _ => return None,
    })
}

/// the other resolution's sentinel, reduced to this field's width
fn other_resolution(key: &str, width: usize) -> Option<u64> {
    let m = (1u64 << width) - 1;
    Some(match (key, width) {
        ("longitude", 28) => 108_600,
        ("longitude", 18) => 108_600_000 & m,
        ("latitude", 27) => 54_600,
        ("latitude", 17) => 54_600_000 & m,
        ("speed_over_ground", 10) => 63,
        ("speed_over_ground", 6) => 1023 & m,
        ("course_over_ground", 12) => 511,
        ("course_over_ground", 9) => 3600 & m,
        _ => return None,
    })
}

pub fn optional_fields(b: &Branch, r: &mut Rng) -> Vec<ExpF> {
    let bits = fresh(b, r);
    let view = Bits::from_bytes(&bits.to_bytes());
    match decode_ref(&view) {
        RefOut::Msg(m) => m.f.into_iter().filter(|f| f.width > 0 && (f.start + f.width) as usize <= b.len && sentinel_of(f.key, f.width as usize).is_some()).collect(),
        _ => Vec::new(),
    }
}

fn value_class(key: &str, width: usize, v: u64) -> &'static str {
    let s = sentinel_of(key, width).unwrap();
    let max = (1u64 << width) - 1;
    if v == s {
        "sentinel"
    } else if v + 1 == s || v == s + 1 || v + 2 == s || v == s + 2 {
        "sentinel-neighbour"
    } else if Some(v) == other_resolution(key, width) {
        "other-resolution-sentinel"
    } else if [54_600_000u64, 108_600_000, 1023, 3600, 511, 4095, 60].contains(&v) {
        "sibling-sentinel"
    } else if v == 0 || v == max || v == max / 2 || v == max / 2 + 1 {
        "extreme"
    } else {
        "other"
    }
}

pub fn run(ctx: &Ctx, rep: &mut Report) {
    let mut r = ctx.rng("c11");
    let mut item = 0u64;
    let mut n = 0u64;
    for b in gen::BRANCHES.iter() {
        let opts = optional_fields(b, &mut r);
        if opts.is_empty() {
            continue;
        }
        for (fi, f) in opts.iter().enumerate() {
            if !ctx.mine(item) {
                item += 1;
                continue;
            }
            item += 1;
            let width = f.width as usize;
            let s = sentinel_of(f.key, width).unwrap();
            let max = (1u64 << width) - 1;
            let mut vals: Vec<u64> = Vec::new();
            if width <= 16 {
                vals.extend(0..=max);
            } else {
                for d in 0..=8u64 {
                    vals.push(s.wrapping_add(d) & max);
                    vals.push(s.wrapping_sub(d) & max);
                    vals.push(d);
                    vals.push(max - d);
                    vals.push((max / 2 + 1).wrapping_add(d) & max);
                    vals.push((max / 2).wrapping_sub(d) & max);
                }
                if let Some(o) = other_resolution(f.key, width) {
                    for d in 0..=2u64 {
                        vals.push((o + d) & max);
                        vals.push(o.wrapping_sub(d) & max);
                    }
                }
                // the sentinels of the sibling fields of this message (a latitude's 91 degrees
                // is an ordinary longitude; a speed's 1023 an ordinary course ...)
                for o in opts.iter() {
                    let os = sentinel_of(o.key, o.width as usize).unwrap();
                    for d in 0..=2u64 {
                        vals.push((os + d) & max);
                        vals.push(os.wrapping_sub(d) & max);
                    }
                }
                // the sentinel with one bit flipped / shifted by a power of two (aliases under a
                // wrong mask or a dropped sign bit)
                for k in 0..width {
                    vals.push((s ^ (1u64 << k)) & max);
                    vals.push(s.wrapping_add(1u64 << k) & max);
                    vals.push(s.wrapping_sub(1u64 << k) & max);
                }
                // every notable value of the shared table (sentinels of the family shifted, truncated,
                // negated; 181 / 91 / 180 / 90 degrees in every plausible unit)
                vals.extend(super::c04::notable_values(f.key, width));
                // negated sentinel (sign handling) and random values
                vals.push(((1u64 << width) - s) & max);
                for _ in 0..ctx.budget(1 << 12, 1 << 16) {
                    vals.push(r.bits(width as u32));
                }
            }
            let reps = if ctx.thorough() { 24 } else { 6 };
            for &v in &vals {
                let important = value_class(f.key, width, v) != "other";
                for _ in 0..(if important { reps * 4 } else if width <= 12 { reps } else { 1 }) {
                    let mut bits = fresh(b, &mut r);
                    // every other optional field of the message at / not at its own sentinel
                    let mut combo = 0u32;
                    for (oi, o) in opts.iter().enumerate() {
                        if oi != fi && r.bool() {
                            bits.put(o.start as usize, o.width as usize, sentinel_of(o.key, o.width as usize).unwrap());
                            combo |= 1 << (oi % 16);
                        }
                    }
                    bits.put(f.start as usize, width, v);
                    n += 1;
                    rep.class(format!("{}|{}[{}]|{}", b.name, f.key, f.idx, value_class(f.key, width, v)));
                    if important {
                        rep.class(format!("{}|{}|combo{:x}", b.name, f.key, combo));
                    }
                    gen::run_message(rep, PID, Some(11), &bits, via_for(n), b.name);
                    rep.count(value_class(f.key, width, v));
                }
                // the sentinel and its neighbours under every special sender number, with all /
                // none of the other optional fields at their own sentinels
                if matches!(value_class(f.key, width, v), "sentinel" | "sentinel-neighbour") && !(f.start < 38 && f.start + f.width > 8) {
                    for (mi, m) in gen::SPECIAL_MMSI.iter().enumerate() {
                        let mut bits = fresh(b, &mut r);
                        if mi % 2 == 0 {
                            for (oi, o) in opts.iter().enumerate() {
                                if oi != fi {
                                    bits.put(o.start as usize, o.width as usize, sentinel_of(o.key, o.width as usize).unwrap());
                                }
                            }
                        }
                        bits.put(8, 30, *m as u64);
                        bits.put(f.start as usize, width, v);
                        n += 1;
                        rep.class(format!("{}|{}|special-sender", b.name, f.key));
                        gen::run_message(rep, PID, Some(11), &bits, via_for(n), b.name);
                    }
                }
            }
        }
    }
    // calendar corners: every combination of the notable values of the date and time fields of a
    // message (first / last valid value, the 'not available' code and its neighbours, raw maximum,
    // month ends): a date-time field is absent exactly at its own code, whatever the others say
    {
        fn notable(key: &str) -> &'static [u64] {
            match key {
                "year" => &[0, 1, 2024, 9999, 16383],
                "month" | "eta_month_utc" => &[0, 1, 2, 6, 12, 13, 15],
                "day" | "eta_day_utc" => &[0, 1, 28, 29, 30, 31],
                "hour" | "eta_hour_utc" => &[0, 12, 23, 24, 25, 31],
                "minute" | "second" | "eta_minute_utc" => &[0, 30, 59, 60, 61, 63],
                _ => &[],
            }
        }
        let mut item2 = 0u64;
        for b in gen::BRANCHES.iter() {
            let bits0 = fresh(b, &mut r);
            let fs: Vec<ExpF> = match decode_ref(&Bits::from_bytes(&bits0.to_bytes())) {
                RefOut::Msg(m) => m.f.into_iter().filter(|f| !notable(f.key).is_empty() && (f.start + f.width) as usize <= b.len).collect(),
                _ => Vec::new(),
            };
            if fs.len() < 2 {
                continue;
            }
            // well-known dates with every time-of-day corner
            if let (Some(y), Some(m), Some(d)) = (fs.iter().find(|f| f.key == "year"), fs.iter().find(|f| f.key == "month"), fs.iter().find(|f| f.key == "day")) {
                let times: Vec<&ExpF> = fs.iter().filter(|f| matches!(f.key, "hour" | "minute" | "second")).collect();
                let tt: u64 = times.iter().map(|f| notable(f.key).len() as u64).product();
                for (di, (yy, mm, dd)) in super::c04::EPOCH_DATES.iter().enumerate() {
                    if !ctx.mine(di as u64) {
                        continue;
                    }
                    for combo in 0..tt {
                        let mut bits = fresh(b, &mut r);
                        bits.put(y.start as usize, y.width as usize, *yy);
                        bits.put(m.start as usize, m.width as usize, *mm);
                        bits.put(d.start as usize, d.width as usize, *dd);
                        let mut x = combo;
                        for f in &times {
                            let vs = notable(f.key);
                            bits.put(f.start as usize, f.width as usize, vs[(x % vs.len() as u64) as usize]);
                            x /= vs.len() as u64;
                        }
                        n += 1;
                        gen::run_message(rep, PID, Some(11), &bits, via_for(n), b.name);
                        rep.count("epoch-dates");
                    }
                }
                rep.class(format!("{}|epoch-dates", b.name));
            }
            let total: u64 = fs.iter().map(|f| notable(f.key).len() as u64).product();
            for combo in 0..total {
                if !ctx.mine(item2 / 64) {
                    item2 += 1;
                    continue;
                }
                item2 += 1;
                let mut bits = fresh(b, &mut r);
                let mut x = combo;
                for f in &fs {
                    let vs = notable(f.key);
                    bits.put(f.start as usize, f.width as usize, vs[(x % vs.len() as u64) as usize]);
                    x /= vs.len() as u64;
                }
                n += 1;
                if combo % 997 == 0 {
                    rep.class(format!("{}|calendar-corners", b.name));
                }
                gen::run_message(rep, PID, Some(11), &bits, via_for(n), b.name);
                rep.count("calendar-corner");
            }
        }
    }
    super::c04::corner_sampler(ctx, rep, PID, 11, &mut r, 20_000, 400_000);
    super::c14::wrap_probe(ctx, rep, PID, crate::gen::pm(&[11]), &mut r);
    super::c14::giant_buffer_probe(ctx, rep, PID, crate::gen::pm(&[11]), &mut r);
    rep.require("sentinel");
    rep.require("sentinel-neighbour");
    rep.require("other-resolution-sentinel");
    rep.sample(3, || {
        let mut o = J::obj();
        o.set("case", J::s("type 27 with longitude raw 108600 (181 degrees at 1/10 minute) and latitude raw 54600"));
        o.set("expected", J::s("longitude None, latitude None"));
        o
    });
}
