//! C12 — enumerated codes map to the named values, injectively, unknowns preserved.
//! Oracle: code tables of ITU-R M.1371-5 (in `decode_ref`), compared with the Debug
//! rendering of the enum value only (the property is about names).

use super::c04::{fields_of, fresh, via_for};
use crate::decode_ref::ship_type_name;
use crate::gen;
use crate::json::J;
use crate::mon::{self, Ctx, Report};
use crate::observe;
use std::collections::BTreeMap;

const PID: &str = "C12";

pub fn run(ctx: &Ctx, rep: &mut Report) {
    let mut r = ctx.rng("c12");
    let mut item = 0u64;
    let mut n = 0u64;
    for b in gen::BRANCHES.iter() {
        let fs = fields_of(b, &mut r, Some(12));
        let opts = super::c11::optional_fields(b, &mut r);
        for f in &fs {
            if !ctx.mine(item) {
                item += 1;
                continue;
            }
            item += 1;
            let width = f.width as usize;
            // observed rendering per code, for the injectivity check
            let mut seen: BTreeMap<String, u64> = BTreeMap::new();
            for code in 0..(1u64 << width) {
                let contexts = if ctx.thorough() { 512 } else { 64 };
                for c in 0..contexts {
                  // the all-'not available' context is repeated under every special sender number
                  let senders: Vec<Option<u32>> = if c % 8 == 2 && (c < 16 || ctx.thorough()) { gen::SPECIAL_MMSI.iter().map(|m| Some(*m)).collect() } else { vec![None] };
                  for sender in senders {
                    let mut bits = fresh(b, &mut r);
                    // some contexts put the optional numeric fields of the message at their
                    // 'not available' codes (all of them, or a random subset): an enumerated
                    // code must not depend on whether a position, speed, ... is available
                    if c % 4 == 1 || c % 8 == 2 {
                        for o in &opts {
                            if c % 8 == 2 || r.bool() {
                                bits.put(o.start as usize, o.width as usize, super::c11::sentinel_of(o.key, o.width as usize).unwrap());
                            }
                        }
                    }
                    if let Some(m) = sender {
                        if !(f.start < 38 && f.start + f.width > 8) {
                            bits.put(8, 30, m as u64);
                        }
                    }
                    bits.put(f.start as usize, width, code);
                    n += 1;
                    rep.class(format!("{}|{}|{}", b.name, f.key, code));
                    if sender.is_some() {
                        rep.class(format!("{}|{}|special-sender", b.name, f.key));
                    }
                    let v = gen::run_message(rep, PID, Some(12), &bits, via_for(n), b.name);
                    rep.count("codes_checked");
                    if c == 0 {
                        if let (crate::val::RefOut::Msg(_), true) = (&v.refout, v.outcome == "ok") {
                            // re-decode to fetch the observed rendering for injectivity
                            if let mon::MsgCall::Ok(o, _) = mon::call_message(&bits.to_bytes()) {
                                if let Some(crate::val::Val::N(name)) = o.get(f.key, f.idx) {
                                    if name != "None" {
                                        if let Some(prev) = seen.insert(name.clone(), code) {
                                            rep.violation(
                                                PID,
                                                format!("not-injective:{}", f.key),
                                                format!("{} field {}: codes {} and {} both map to {}", b.name, f.key, prev, code, name),
                                                || mon::replay_message(&bits.to_bytes(), b.name),
                                            );
                                        }
                                    }
                                }
                            }
                        }
                    }
                  }
                }
            }
        }
    }
    // direct ship type conversions for all 256 codes
    if ctx.shard == 0 {
        for c in 0..=255u8 {
            rep.eval();
            match mon::guard(|| observe::ship_type_roundtrip(c)) {
                Err(pi) => rep.violation(PID, format!("panic@{}", pi.loc), format!("ShipType::parse({}) panicked: {}", c, pi.msg), || J::s("ShipType::parse")),
                Ok((name, back)) => {
                    rep.class(format!("shiptype-direct|{}", c));
                    if name != ship_type_name(c as u64) {
                        rep.violation(PID, format!("shiptype-direct:{}", c), format!("ShipType::parse({}) = {}, specification names {}", c, name, ship_type_name(c as u64)), || J::s("ShipType::parse"));
                    }
                    if (1..=99).contains(&c) && back != Some(c) {
                        rep.violation(PID, format!("shiptype-back:{}", c), format!("u8::from(ShipType::parse({})) = {:?}", c, back), || J::s("u8::from(ShipType)"));
                    }
                    if !(1..=99).contains(&c) && back.is_some() {
                        rep.violation(PID, format!("shiptype-undefined:{}", c), format!("undefined ship type code {} not reported as absent", c), || J::s("ShipType::parse"));
                    }
                }
            }
        }
    }
    // distinct codes must be distinct values under the crate's own `==` as well (not only in
    // their Debug rendering): all pairs of codes of every enumerated type with a parser
    if ctx.shard == 1 % ctx.nshards {
        use crate::decode_ref::{aid_type_name, epfd_name, maneuver_name, nav_status_name};
        let kinds: [(u8, u16, &str, fn(u64) -> String); 5] = [
            (0, 256, "ship type", ship_type_name),
            (1, 16, "fix device", epfd_name),
            (2, 16, "navigation status", nav_status_name),
            (3, 4, "manoeuvre indicator", maneuver_name),
            (4, 32, "aid type", aid_type_name),
        ];
        for (kind, ncodes, name, namer) in kinds {
            for a in 0..ncodes {
                for b in (a + 1)..ncodes {
                    rep.eval();
                    let absent = |c: u16| namer(c as u64) == "None";
                    // undefined codes are all reported as absent and therefore equal
                    let want_equal = absent(a) && absent(b);
                    match mon::guard(|| observe::enum_codes_equal(kind, a as u8, b as u8)) {
                        Err(pi) => rep.violation(PID, format!("panic@{}", pi.loc), pi.msg.clone(), || J::s("enum parse")),
                        Ok(eq) => {
                            if eq != want_equal {
                                rep.violation(
                                    PID,
                                    format!("codes-compare-{}:{}", if eq { "equal" } else { "unequal" }, name.replace(' ', "-")),
                                    format!("{} codes {} and {}: `==` on the decoded values gives {}, expected {}", name, a, b, eq, want_equal),
                                    || J::s("pairwise comparison of decoded codes"),
                                );
                            }
                        }
                    }
                }
            }
            rep.class(format!("pairwise-eq|{}", name));
        }
    }
    super::c04::corner_sampler(ctx, rep, PID, 12, &mut r, 20_000, 400_000);
    super::c14::wrap_probe(ctx, rep, PID, crate::gen::pm(&[12]), &mut r);
    super::c14::giant_buffer_probe(ctx, rep, PID, crate::gen::pm(&[12]), &mut r);
    rep.require("codes_checked");
    rep.extra.insert("exhaustive_codes".into(), J::Bool(true));
    rep.sample(3, || {
        let mut o = J::obj();
        o.set("case", J::s("type 5, ship type code 52 in a randomised message"));
        o.set("expected", J::s("Some(Tug); u8::from -> 52"));
        o
    });
}
