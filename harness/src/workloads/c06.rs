//! C06 — only a complete in-order group ever produces a multi-fragment message.
//! Oracle: `reasm_ref` run in lock-step with the parser; every line carries a unique payload
//! so that a Complete payload identifies which fragments went into it, in which order.

use super::common::*;
use crate::gen;
use crate::json::J;
use crate::mon::{self, Call, Ctx, Parser, Report};
use crate::nmea_ref::{self, Build};
use crate::observe::{ErrKind, Outcome};
use crate::reasm_ref::{self, Expect, Reasm, Seen};
use crate::rng::Rng;

const PID: &str = "C06";

#[derive(Clone, Debug)]
pub enum Sym {
    /// well-formed line with header (n, k, id)
    Hdr(u8, u8, Option<u8>),
    BadChecksum,
    Malformed,
}

/// Parser + reference automaton in lock-step
pub struct Lock {
    pub p: Parser,
    pub m: Reasm,
    pub log: Vec<(Vec<u8>, bool)>,
    pub ctr: u64,
    pub pid: &'static str,
    /// request decoding on every symbol line (payloads are undecodable: every final fails)
    pub decode_all: bool,
    /// 0: symbol payloads are valid armoring of an unsupported type (decoding fails in the
    /// message stage); 1: every symbol payload contains a byte outside the armoring alphabet
    /// (decoding fails while unarmoring); 2: alternating
    pub payload_style: u8,
    /// re-draw the presentation of every header line (talker, VDM/VDO/other, delimiter, tag block,
    /// channel, leading zeros, non-final fill count, checksum spelling, line ending)
    pub dress: bool,
}

/// unique payload that cannot be unarmored: 'X' (88) is outside the alphabet
pub fn uniq_payload_bad_armor(counter: u64) -> Vec<u8> {
    let mut v = uniq_payload(counter);
    let last = v.len() - 1;
    v[last] = b'X';
    v
}

pub struct Step {
    pub state_class: &'static str,
    pub line_class: &'static str,
    pub seen: &'static str,
    pub violated: bool,
}

impl Lock {
    pub fn new(pid: &'static str) -> Self {
        Lock { p: Parser::new(), m: Reasm::new(), log: Vec::new(), ctr: 0, pid, decode_all: false, payload_style: 0, dress: false }
    }

    /// Feed one well-formed line with a given payload; judge against the model.
    /// `decodable`: Some(true) when the caller knows the delivered payload decodes.
    pub fn feed_hdr(&mut self, rep: &mut Report, n: u8, k: u8, id: Option<u8>, payload: &[u8], fill: u8, decode: bool, decodable: Option<bool>, note: &str) -> Step {
        let line = if self.dress {
            let mut b = Build::simple(n, k, id, b"A", payload, fill);
            let mut r = Rng::new(crate::rng::fnv(payload) ^ (self.log.len() as u64) << 20);
            dress(&mut r, &mut b, k < n);
            b.line()
        } else {
            nmea_ref::mk(n, k, id, payload, fill)
        };
        let sc = reasm_ref::state_class(&self.m.st);
        let lc = reasm_ref::line_class(&self.m.st, n, k, id);
        let exp = self.m.expect(n, k, id, payload);
        // fixed capacity of the no-allocator build: a continuation that would take the open
        // group above 384 bytes must be rejected and (C17) leaves the group as it was
        let over = mon::is_noalloc()
            && matches!(exp, Expect::Incomplete | Expect::Complete(_) | Expect::Either(_))
            && n != 1
            && !(k == 1 && k < n)
            && self.group_len() + payload.len() > 384;
        rep.eval();
        let c = self.p.parse(&line, decode);
        self.log.push((line, decode));
        let mut violated = false;
        let pid = self.pid;
        let (seen, seen_name): (Seen, &'static str) = match &c {
            Call::Panic(pi) => {
                let log = self.log.clone();
                rep.violation(
                    pid,
                    format!("panic@{}", pi.loc),
                    format!("panic '{}' at {} on a line of class '{}' in state '{}' (the statement demands a result or an error)", pi.msg, pi.loc, lc, sc),
                    || mon::replay_history(&log, note),
                );
                violated = true;
                // the parser was replaced by a fresh one: resynchronise the model
                self.m = Reasm::new();
                return Step { state_class: sc, line_class: lc, seen: "Panic", violated };
            }
            Call::Done(Outcome::Complete(_)) => (Seen::Complete, "Complete"),
            Call::Done(Outcome::Incomplete(_)) => (Seen::Incomplete, "Incomplete"),
            Call::Done(Outcome::Err(_)) => (Seen::Err, "Err"),
        };
        let out = match &c {
            Call::Done(o) => o.clone(),
            _ => unreachable!(),
        };
        let mut bad = |rep: &mut Report, sig: &str, why: String| {
            let log = self.log.clone();
            rep.violation(pid, sig.to_string(), format!("{} [state '{}', line class '{}', header {},{},{:?}]", why, sc, lc, n, k, id), || mon::replay_history(&log, note));
        };
        if over {
            rep.count("noalloc_capacity");
            if seen != Seen::Err {
                violated = true;
                bad(rep, "noalloc-accepted-beyond-capacity", format!("a fragment taking the group to {} bytes (capacity 384) was accepted as {}", self.group_len() + payload.len(), out.canon()));
                self.m.st = crate::reasm_ref::St::Ambiguous;
            }
            // rejected: the open group is unchanged
            let cell = format!("{}|{}|{}", sc, "over-capacity", seen_name);
            rep.class(cell);
            return Step { state_class: sc, line_class: lc, seen: seen_name, violated };
        }
        match &exp {
            Expect::Unjudged => rep.count("unjudged"),
            Expect::Reject(why) => {
                if seen != Seen::Err {
                    violated = true;
                    bad(rep, &format!("accepted-{}", lc), format!("a fragment that must be rejected ({}) was accepted as {}", why, out.canon()));
                }
            }
            Expect::Incomplete => match &out {
                Outcome::Incomplete(s) => {
                    if s.data != payload {
                        violated = true;
                        bad(rep, "incomplete-wrong-payload", format!("Incomplete carries {:?}, not the fragment's own payload", crate::json::esc_bytes(&s.data)));
                    }
                }
                Outcome::Err(_) if mon::is_noalloc() && self.group_len() + payload.len() > 384 => rep.count("noalloc_capacity"),
                o => {
                    violated = true;
                    bad(rep, &format!("rejected-{}", lc), format!("a fragment that directly continues its group returned {}", o.canon()));
                }
            },
            Expect::Complete(p) => match &out {
                Outcome::Complete(s) => {
                    if &s.data != p {
                        violated = true;
                        bad(rep, "complete-wrong-payload", format!("delivered payload {:?} is not the in-order concatenation {:?}", crate::json::esc_bytes(&s.data), crate::json::esc_bytes(p)));
                    }
                }
                Outcome::Err(ErrKind::Nmea) if decode && !(decodable == Some(true) && ref_decodes(p, fill)) => rep.count("final-decode-error-unjudged"),
                Outcome::Err(_) if mon::is_noalloc() && p.len() > 384 => rep.count("noalloc_capacity"),
                o => {
                    violated = true;
                    bad(rep, &format!("rejected-{}", lc), format!("expected Complete, observed {}", o.canon()));
                }
            },
            Expect::Either(p) => {
                rep.count("count-mismatch-either");
                if let (Outcome::Complete(s), Some(p)) = (&out, p) {
                    if &s.data != p {
                        violated = true;
                        bad(rep, "complete-wrong-payload", format!("delivered payload {:?} is not the concatenation {:?}", crate::json::esc_bytes(&s.data), crate::json::esc_bytes(p)));
                    }
                }
            }
        }
        self.m.advance(n, k, id, payload, seen, decode);
        let cell = format!("{}|{}|{}", sc, lc, seen_name);
        rep.count_n(&format!("cell:{}", cell), 1);
        if rep.samples.len() < 5 && self.log.len() == 4 {
            let log = self.log.clone();
            rep.sample(5, || {
                let mut o = J::obj();
                o.set("history", J::Arr(log.iter().map(|(l, _)| J::bytes(l)).collect()));
                o.set("last_line", J::s(&format!("model state '{}', line class '{}', observed {}", sc, lc, seen_name)));
                o
            });
        }
        rep.class(cell);
        Step { state_class: sc, line_class: lc, seen: seen_name, violated }
    }

    fn group_len(&self) -> usize {
        match &self.m.st {
            reasm_ref::St::Open { acc, .. } => acc.len(),
            _ => 0,
        }
    }

    /// a line that must be rejected without touching anything
    pub fn feed_inert(&mut self, rep: &mut Report, bad_checksum: bool, note: &str) {
        let line = if bad_checksum {
            // a perfect next fragment of whatever is open, with a wrong checksum
            let (n, k, id) = match (&self.m.st, self.ctr % 3) {
                (reasm_ref::St::Open { id, last, n, .. }, 0) => (*n, last.saturating_add(1), *id),
                // an opener with the open group's id, or without id: looked at before the checksum
                // it would restart or replace the group
                (reasm_ref::St::Open { id, n, .. }, 1) => ((*n).max(2), 1, *id),
                (reasm_ref::St::Open { .. }, _) => (2, 1, None),
                _ => (2, 1, Some(1)),
            };
            let mut b = Build::simple(n, k, id, b"A", &uniq_payload(self.next_ctr()), 0);
            b.cks = Some(nmea_ref::xor(&b.body()) ^ 0x21);
            b.line()
        } else {
            match (&self.m.st, self.ctr % 3) {
                // malformed (empty payload / fill count 6) behind a readable opener or next-fragment header
                (reasm_ref::St::Open { id, n, .. }, 1) => {
                    let mut b = Build::simple((*n).max(2), 1, *id, b"A", b"", 0);
                    b.payload.clear();
                    b.line()
                }
                (reasm_ref::St::Open { id, last, n, .. }, 2) => {
                    let mut b = Build::simple(*n, last.saturating_add(1), *id, b"A", &uniq_payload(self.ctr), 0);
                    b.fill = "6".into();
                    b.line()
                }
                _ => b"!AIVDM,2,x,1,A,PPPP;,0*00".to_vec(),
            }
        };
        rep.eval();
        let sc = reasm_ref::state_class(&self.m.st);
        let c = self.p.parse(&line, false);
        self.log.push((line, false));
        let kind = if bad_checksum { "bad-checksum" } else { "malformed" };
        let seen = call_kind(&c);
        rep.class(format!("{}|{}|{}", sc, kind, seen));
        match c {
            Call::Done(Outcome::Err(_)) => {}
            Call::Done(o) => {
                let log = self.log.clone();
                rep.violation(self.pid, format!("accepted-{}", kind), format!("{} line accepted: {}", kind, o.canon()), || mon::replay_history(&log, note));
            }
            Call::Panic(pi) => {
                let log = self.log.clone();
                rep.violation(self.pid, format!("panic@{}", pi.loc), pi.msg.clone(), || mon::replay_history(&log, note));
                self.m = Reasm::new();
            }
        }
    }

    pub fn next_ctr(&mut self) -> u64 {
        self.ctr += 1;
        self.ctr
    }

    pub fn feed_sym(&mut self, rep: &mut Report, s: &Sym, note: &str) -> Option<Step> {
        match s {
            Sym::Hdr(n, k, id) => {
                let c = self.next_ctr();
                let d = self.decode_all;
                let pl = match self.payload_style {
                    1 => uniq_payload_bad_armor(c),
                    2 if c % 2 == 0 => uniq_payload_bad_armor(c),
                    _ => uniq_payload(c),
                };
                Some(self.feed_hdr(rep, *n, *k, *id, &pl, 0, d, None, note))
            }
            Sym::BadChecksum => {
                self.feed_inert(rep, true, note);
                None
            }
            Sym::Malformed => {
                self.feed_inert(rep, false, note);
                None
            }
        }
    }
}

/// does the reference model say this delivered payload must decode (in this build)?
fn ref_decodes(payload: &[u8], fill: u8) -> bool {
    match crate::armor::unarmored_bits(payload, fill as usize).map(|v| crate::decode_ref::decode_ref(&v)) {
        Some(crate::val::RefOut::Msg(m)) => m.must_ok && !(mon::is_noalloc() && m.caps.over()),
        _ => false,
    }
}

pub fn alphabet() -> Vec<Sym> {
    let mut a = Vec::new();
    for (n, k) in [(1u8, 1u8), (2, 1), (2, 2), (3, 1), (3, 2), (3, 3)] {
        // 255 is the id most likely to collide with an internal "no id" marker
        for id in [None, Some(1u8), Some(255u8)] {
            a.push(Sym::Hdr(n, k, id));
        }
    }
    a.push(Sym::BadChecksum);
    a.push(Sym::Malformed);
    a
}

/// bounded-exhaustive: every history of exactly `depth` symbols (all shorter ones are prefixes)
fn exhaustive(ctx: &Ctx, rep: &mut Report, depth: usize, decode_all: bool, payload_style: u8) {
    let a = alphabet();
    let base = a.len() as u64;
    let total = base.pow(depth as u32);
    // shard on the first two symbols so that shards are balanced
    let mut h = 0u64;
    while h < total {
        if !ctx.mine(h / base.pow((depth - 2) as u32)) {
            h += base.pow((depth - 2) as u32);
            continue;
        }
        let mut lk = Lock::new(PID);
        lk.decode_all = decode_all;
        lk.payload_style = payload_style;
        let mut x = h;
        let mut digits = vec![0usize; depth];
        for d in (0..depth).rev() {
            digits[d] = (x % base) as usize;
            x /= base;
        }
        for d in digits {
            lk.feed_sym(rep, &a[d], "exhaustive");
        }
        rep.token(lk.p.token());
        h += 1;
    }
    rep.extra.insert("exhaustive_history_length".into(), J::i(depth as u64));
    rep.extra.insert("exhaustive_histories".into(), J::i(total));
}

/// probes: the model predicts accept/reject for a set of continuations; checked by replaying
/// the recorded history on a fresh parser
fn probe(rep: &mut Report, lk: &Lock) {
    let ids: Vec<Option<u8>> = match &lk.m.st {
        reasm_ref::St::Open { id, .. } => vec![*id, None, Some(1), id.map(|x| x.wrapping_add(1) % 10).or(Some(3))],
        _ => vec![None, Some(1), Some(255)],
    };
    let (last, gn) = match &lk.m.st {
        reasm_ref::St::Open { last, n, .. } => (*last, *n),
        _ => (1, 3),
    };
    for id in ids {
        for k in [last, last.saturating_add(1), last.saturating_add(2), 2] {
            let n = gn.max(k);
            if k < 2 || k > n {
                continue;
            }
            let payload = uniq_payload(99_000 + k as u64);
            let exp = lk.m.expect(n, k, id, &payload);
            let mut p = Parser::new();
            for (l, d) in &lk.log {
                let _ = p.parse(l, *d);
            }
            rep.eval();
            let line = nmea_ref::mk(n, k, id, &payload, 0);
            let c = p.parse(&line, false);
            let mut h = lk.log.clone();
            h.push((line, false));
            match (&exp, &c) {
                (_, Call::Panic(pi)) => {
                    rep.violation(PID, format!("panic@{}", pi.loc), format!("probe panicked: {}", pi.msg), || mon::replay_history(&h, "probe"));
                }
                (Expect::Reject(why), Call::Done(o)) if o.is_ok() => {
                    rep.violation(PID, "probe-accepted".into(), format!("probe {},{},{:?} must be rejected ({}) but returned {}", n, k, id, why, o.canon()), || mon::replay_history(&h, "probe"));
                }
                (Expect::Complete(pl), Call::Done(o)) => match o {
                    Outcome::Complete(s) if &s.data == pl => {}
                    Outcome::Err(_) if mon::is_noalloc() && pl.len() > 384 => {}
                    _ => rep.violation(PID, "probe-final-wrong".into(), format!("probe final {},{},{:?} returned {}", n, k, id, o.canon()), || mon::replay_history(&h, "probe")),
                },
                (Expect::Incomplete, Call::Done(o)) => match o {
                    Outcome::Incomplete(_) => {}
                    Outcome::Err(_) if mon::is_noalloc() => {}
                    _ => rep.violation(PID, "probe-continuation-wrong".into(), format!("probe {},{},{:?} returned {}", n, k, id, o.canon()), || mon::replay_history(&h, "probe")),
                },
                _ => {}
            }
            rep.count("probes");
        }
    }
}

/// random long histories from a fault-injecting scheduler over correct groups
fn random_histories(ctx: &Ctx, rep: &mut Report, r: &mut Rng) {
    for hi in 0..ctx.budget(4_000, 250_000) {
        let mut lk = Lock::new(PID);
        lk.dress = hi % 3 == 1;
        let decode_mode = hi % 5 == 0;
        // jumbo histories (std / alloc): fragments of up to 98 000 characters, so that groups grow
        // past 2^16, 255 x 384 and 2^17 bytes - any bound a heap-backed buffer might be given
        let jumbo = hi % 16 == 3 && !mon::is_noalloc();
        let len = if jumbo { r.usize(6, 24) } else { r.usize(10, 200) };
        // plan: sequence of (n,k,id,payload, fill, decodable)
        let mut plan: Vec<(u8, u8, Option<u8>, Vec<u8>, u8, Option<bool>)> = Vec::new();
        let mut last_id: Option<u8> = None;
        while plan.len() < len {
            let n = if jumbo { r.range(2, 5) as u8 } else if r.chance(1, 40) { r.range(10, 255) as u8 } else { r.range(2, 9) as u8 };
            let id = match r.below(5) {
                0 => None,
                1 => last_id, // reuse the id immediately
                2 if r.chance(1, 3) => Some(*r.pick(&[0u8, 10, 99, 254, 255])),
                _ => Some(r.below(10) as u8),
            };
            last_id = id;
            let mut frags: Vec<(u8, u8, Option<u8>, Vec<u8>, u8, Option<bool>)> = Vec::new();
            if decode_mode && r.bool() {
                // a decodable group: a valid message split into n parts
                let br = r.pick(gen::BRANCHES);
                let bits = gen::gen_message(br, r);
                let (chars, fill) = bits.to_armor();
                let n2 = (n as usize).min(chars.len()).max(2);
                if chars.len() >= 2 {
                    let mut cuts: Vec<usize> = Vec::new();
                    while cuts.len() < n2 - 1 {
                        let c = r.usize(1, chars.len() - 1);
                        if !cuts.contains(&c) {
                            cuts.push(c);
                        }
                    }
                    cuts.sort();
                    cuts.push(chars.len());
                    let mut prev = 0;
                    for (j, c) in cuts.iter().enumerate() {
                        let f = if j + 1 == n2 { fill } else { 0 };
                        frags.push((n2 as u8, (j + 1) as u8, id, chars[prev..*c].to_vec(), f, Some(true)));
                        prev = *c;
                    }
                }
            }
            if frags.is_empty() {
                for k in 1..=n {
                    let c = lk.next_ctr();
                    frags.push((n, k, id, uniq_payload(c), 0, None));
                }
            }
            if jumbo {
                for f in frags.iter_mut() {
                    if f.5.is_none() {
                        // a few histories with fragments of several MiB: groups pass 2^24 bytes
                        let extra = if hi % 128 == 3 && hi < 4000 { *r.pick(&[0usize, 98_000, 5_000_000, 9_000_000]) } else { *r.pick(&[0usize, 380, 5000, 30_000, 66_000, 98_000]) };
                        f.3.extend(std::iter::repeat(b'w').take(extra));
                    }
                }
            }
            // fault injection
            match r.below(12) {
                0 => {
                    let i = r.usize(0, frags.len() - 1);
                    frags.remove(i); // loss
                }
                1 => {
                    let i = r.usize(0, frags.len() - 1);
                    let f = frags[i].clone();
                    frags.insert(i, f); // duplication
                }
                2 => {
                    let i = r.usize(0, frags.len() - 2);
                    frags.swap(i, i + 1); // reordering
                }
                3 => {
                    let f = frags.last().unwrap().clone();
                    frags.push(f); // final twice
                }
                4 => {
                    let again = frags.clone();
                    frags.extend(again); // replay of the whole group
                }
                5 => {
                    // delay one fragment past the next group: push it into the plan later
                    if frags.len() > 2 {
                        let i = r.usize(1, frags.len() - 1);
                        let f = frags.remove(i);
                        plan.extend(frags.drain(..));
                        let c1 = lk.next_ctr();
                        let c2 = lk.next_ctr();
                        plan.push((2, 1, Some(r.below(10) as u8), uniq_payload(c1), 0, None));
                        plan.push((2, 2, plan.last().unwrap().2, uniq_payload(c2), 0, None));
                        plan.push(f);
                    }
                }
                6 => {
                    // wrong id on one continuation
                    if frags.len() > 1 {
                        let i = r.usize(1, frags.len() - 1);
                        frags[i].2 = Some(frags[i].2.map_or(4, |x| (x % 10 + 1) % 10 + if x >= 10 { 20 } else { 0 }));
                    }
                }
                7 => {
                    // stale tail after delivery: k = n+1.. with a larger count
                    let (n0, _, id0, _, _, _) = frags.last().unwrap().clone();
                    if n0 < 250 {
                        let c = lk.next_ctr();
                        frags.push((n0 + 1, n0 + 1, id0, uniq_payload(c), 0, None));
                        let c = lk.next_ctr();
                        frags.push((n0 + 2, n0 + 2, id0, uniq_payload(c), 0, None));
                    }
                }
                8 => {
                    // interleave with another group round-robin
                    let id2 = Some(id.map_or(1, |x| (x % 10 + 3) % 10 + if x >= 10 { 30 } else { 0 }));
                    let mut mixed = Vec::new();
                    for (j, f) in frags.iter().enumerate() {
                        mixed.push(f.clone());
                        if j < 3 {
                            let c = lk.next_ctr();
                            mixed.push((3, (j + 1) as u8, id2, uniq_payload(c), 0, None));
                        }
                    }
                    frags = mixed;
                }
                10 => {
                    // one byte of one fragment replaced by a byte outside the armoring alphabet:
                    // with decoding requested the delivery fails while unarmoring
                    let i = r.usize(0, frags.len() - 1);
                    let j = r.usize(0, frags[i].3.len() - 1);
                    frags[i].3[j] = *r.pick(b"X~_xy\x7f\x80 ");
                    // followed by a stale tail of the same id (k = n+1 with a larger count)
                    let (n0, _, id0, _, _, _) = frags.last().unwrap().clone();
                    if n0 < 250 && r.bool() {
                        let c = lk.next_ctr();
                        frags.push((n0 + 1, n0 + 1, id0, uniq_payload(c), 0, None));
                    }
                }
                9 => {
                    // unfragmented lines in between
                    let i = r.usize(0, frags.len());
                    let c = lk.next_ctr();
                    frags.insert(i, (1, 1, None, uniq_payload(c), 0, None));
                }
                _ => {}
            }
            plan.extend(frags);
        }
        for (i, (n, k, id, pl, fill, decodable)) in plan.iter().enumerate() {
            if r.chance(1, 25) {
                lk.feed_inert(rep, r.bool(), "random");
            }
            let decode = decode_mode && (decodable.is_some() || r.chance(1, 4));
            let st = lk.feed_hdr(rep, *n, *k, *id, pl, *fill, decode, *decodable, "random");
            if st.violated {
                break;
            }
            if hi % 8 == 0 && i % 13 == 0 && lk.log.len() < 80 {
                probe(rep, &lk);
            }
            if lk.log.len() > 400 {
                break;
            }
        }
        rep.token(lk.p.token());
    }
}

pub const REQUIRED_CELLS: &[&str] = &[
    "closed-fresh|orphan|Err",
    "closed-after-delivery|stale-after-delivery|Err",
    "open-last1|correct-continuation|Incomplete",
    "open-last1|correct-final|Complete",
    "open-last2plus|correct-final|Complete",
    "open-last2plus|duplicate|Err",
    "open-last1|skip|Err",
    "open-last2plus|behind|Err",
    "open-last1|wrong-id|Err",
    "open-last1|unfragmented|Complete",
    "open-last1|opener-same-id|Incomplete",
    "open-last1|opener-other-id|Incomplete",
    "after-failed-delivery|stale-after-failed-delivery|Err",
    "after-failed-delivery|opener|Incomplete",
];

pub fn run(ctx: &Ctx, rep: &mut Report) {
    let mut r = ctx.rng("c06");
    exhaustive(ctx, rep, if ctx.thorough() { 5 } else { 4 }, false, 0);
    // the same with decoding requested: unique payloads do not decode, so every final
    // fragment fails after sequencing and the state after a failed delivery is explored
    exhaustive(ctx, rep, 4, true, 0);
    // ... and with payloads that already fail while unarmoring (a byte outside the alphabet in
    // every line, or in every other line): the delivery fails one stage earlier
    exhaustive(ctx, rep, 4, true, 1);
    exhaustive(ctx, rep, 4, true, 2);
    random_histories(ctx, rep, &mut r);
    // very many accepted unfragmented sentences (decoded or not) between the opener and the rest
    // of a group: the group must still be delivered whole, or not at all
    {
        let mut item = 9000u64;
        for run in [70_000usize, 100_001, 131_073] {
            for decode in [false, true] {
                if !ctx.mine(item) {
                    item += 1;
                    continue;
                }
                item += 1;
                let mut lk = Lock::new(PID);
                let id = Some(4);
                let c = lk.next_ctr();
                lk.feed_hdr(rep, 3, 1, id, &uniq_payload(c), 0, false, None, "mass-unfragmented");
                for _ in 0..run {
                    let st = lk.feed_hdr(rep, 1, 1, None, b"15RTgt0PAso;90TKcjM8h6g208CQ", 0, decode, Some(true), "mass-unfragmented");
                    if st.violated {
                        break;
                    }
                    // keep the replay log short: only the group lines and a few of the run matter
                    if lk.log.len() > 8 {
                        lk.log.truncate(4);
                        lk.log.push((format!("... {} unfragmented sentences in all ...", run).into_bytes(), false));
                    }
                }
                let c = lk.next_ctr();
                lk.feed_hdr(rep, 3, 2, id, &uniq_payload(c), 0, false, None, "mass-unfragmented");
                let c = lk.next_ctr();
                lk.feed_hdr(rep, 3, 3, id, &uniq_payload(c), 0, false, None, "mass-unfragmented");
                rep.count("mass-unfragmented-runs");
            }
        }
    }
    // (std / alloc) an abandoned group whose buffer has grown past 2^24, 2^26 or 2^27 bytes, followed
    // by an ordinary small group: what is delivered is the small group, nothing of the abandoned one
    if !mon::is_noalloc() {
        let mut item = 9500u64;
        for total in [1usize << 24, 1 << 26, 1 << 27] {
            for same_id in [true, false] {
                if !ctx.mine(item) {
                    item += 1;
                    continue;
                }
                item += 1;
                let mut lk = Lock::new(PID);
                let big = |tag: u64| {
                    let mut v = uniq_payload(tag);
                    v.extend(std::iter::repeat(b'w').take(total / 2 + 1000));
                    v
                };
                lk.feed_hdr(rep, 3, 1, Some(5), &big(1), 0, false, None, "huge-abandoned");
                lk.feed_hdr(rep, 3, 2, Some(5), &big(2), 0, false, None, "huge-abandoned");
                // keep the replay small: the two long lines are described, not stored
                lk.log.clear();
                lk.log.push((format!("... fragments 1 and 2 of 3 (id 5), {} payload characters each, tail never sent ...", total / 2 + 1006).into_bytes(), false));
                let id = if same_id { Some(5) } else { Some(6) };
                let c1 = lk.next_ctr();
                lk.feed_hdr(rep, 2, 1, id, &uniq_payload(c1), 0, false, None, "huge-abandoned");
                let c2 = lk.next_ctr();
                lk.feed_hdr(rep, 2, 2, id, &uniq_payload(c2), 0, false, None, "huge-abandoned");
                rep.count("huge-abandoned-groups");
            }
        }
    }
    // (std build) a group that is *delivered* although its payload passes 2^28 bytes (2^29 and 2^30
    // in the thorough tier): five long fragments, two short ones - whatever limit an
    // implementation has, an accepted fragment is part of what is delivered
    if mon::CFG == "std" {
        let mut item = 9600u64;
        let mut totals = vec![1usize << 28];
        if ctx.thorough() {
            totals.extend_from_slice(&[1 << 29, 1 << 30]);
        }
        for total in totals {
            if !ctx.mine(item) {
                item += 1;
                continue;
            }
            item += 1;
            let mut lk = Lock::new(PID);
            let piece = total / 4 + 1000;
            for k in 1..=5u8 {
                let mut v = uniq_payload(k as u64);
                v.extend(std::iter::repeat(b'0' + k).take(piece));
                let st = lk.feed_hdr(rep, 7, k, Some(7), &v, 0, false, None, "huge-delivered");
                lk.log.clear();
                lk.log.push((format!("... fragments 1..{} of 7 (id 7), {} payload characters each ...", k, piece + 6).into_bytes(), false));
                if st.violated {
                    break;
                }
            }
            let c1 = lk.next_ctr();
            lk.feed_hdr(rep, 7, 6, Some(7), &uniq_payload(c1), 0, false, None, "huge-delivered");
            let c2 = lk.next_ctr();
            lk.feed_hdr(rep, 7, 7, Some(7), &uniq_payload(c2), 0, false, None, "huge-delivered");
            rep.count("huge-delivered-groups");
            rep.class(format!("huge-delivered|2^{}", total.trailing_zeros()));
        }
    }
    for c in REQUIRED_CELLS {
        rep.require(&format!("cell:{}", c));
    }
    rep.sample(3, || {
        let mut o = J::obj();
        o.set("history", J::Arr(vec![J::bytes(&nmea_ref::mk(2, 1, Some(7), &uniq_payload(1), 0)), J::bytes(&nmea_ref::mk(2, 2, Some(7), &uniq_payload(2), 0)), J::bytes(&nmea_ref::mk(3, 3, Some(7), &uniq_payload(3), 0))]));
        o.set("expected", J::s("Incomplete, Complete(P1+P2), Err (stale: group already delivered)"));
        o
    });
}
