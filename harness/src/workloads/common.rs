//! Helpers shared by the line-level workloads.

use crate::armor;
use crate::mon::{Call, Parser};
use crate::nmea_ref::{self, Build};
use crate::rng::Rng;

/// unique payload over the armoring alphabet: encodes `counter` so that a Complete
/// payload identifies which fragments, in which order, went into it
pub fn uniq_payload(counter: u64) -> Vec<u8> {
    // 'P' marker + 4 base-32 digits from 'A'.. (all inside the armoring alphabet) + ';'
    let mut v = vec![b'P'];
    let mut c = counter;
    for _ in 0..4 {
        v.push(b'0' + (c % 32) as u8);
        c /= 32;
    }
    v.push(b';');
    v
}

/// feed the in-order prefix (n,1..k-1,id) so that line (n,k,id) is sequencing-neutral;
/// returns the concatenated payload of the prefix and the lines fed
pub fn prime(p: &mut Parser, n: u8, k: u8, id: Option<u8>, log: &mut Vec<(Vec<u8>, bool)>) -> Vec<u8> {
    let mut acc = Vec::new();
    if n >= 2 && k >= 2 && k <= n {
        for j in 1..k {
            let pl = uniq_payload(1000 + j as u64);
            let line = nmea_ref::mk(n, j, id, &pl, 0);
            let _ = p.parse(&line, false);
            log.push((line, false));
            acc.extend_from_slice(&pl);
        }
    }
    acc
}

pub const TALKERS: [&[u8; 2]; 10] = [b"AB", b"AD", b"AI", b"AN", b"AR", b"AS", b"AT", b"AX", b"BS", b"SA"];

pub fn talker_ref(t: [u8; 2]) -> &'static str {
    match &t {
        b"AB" => "AB",
        b"AD" => "AD",
        b"AI" => "AI",
        b"AN" => "AN",
        b"AR" => "AR",
        b"AS" => "AS",
        b"AT" => "AT",
        b"AX" => "AX",
        b"BS" => "BS",
        b"SA" => "SA",
        _ => "Unknown",
    }
}

pub fn report_ref(f: [u8; 3]) -> &'static str {
    match &f {
        b"VDM" => "VDM",
        b"VDO" => "VDO",
        _ => "Unknown",
    }
}

/// a byte that is legal inside a field (no separator that would change the shape)
pub fn field_byte(r: &mut Rng) -> u8 {
    loop {
        let b = r.below(256) as u8;
        if b != b',' && b != b'*' && b != b'\n' {
            return b;
        }
    }
}

pub fn armor_chars(r: &mut Rng, len: usize) -> Vec<u8> {
    (0..len).map(|_| *r.pick(armor::ALPHABET)).collect()
}

/// random payload bytes: armoring alphabet / its edges / arbitrary field bytes
pub fn payload_bytes(r: &mut Rng, len: usize) -> Vec<u8> {
    const EDGES: &[u8] = b"0W`wVX_xv/";
    match r.below(4) {
        0 => armor_chars(r, len),
        1 => (0..len).map(|_| *r.pick(EDGES)).collect(),
        2 => (0..len).map(|_| field_byte(r)).collect(),
        _ => {
            let mut v = armor_chars(r, len);
            if len > 0 {
                let i = r.usize(0, len - 1);
                v[i] = field_byte(r);
            }
            v
        }
    }
}

pub fn num_string(r: &mut Rng, v: u32) -> String {
    match r.below(6) {
        0 => format!("0{}", v),
        1 => format!("00{}", v),
        2 => format!("{:0>12}", v),
        _ => v.to_string(),
    }
}

/// a random well-formed sentence description (all fields randomised)
pub fn random_build(r: &mut Rng, maxlen: usize) -> Build {
    let n = match r.below(5) {
        0 => 1,
        1 => 2,
        2 => r.range(1, 9) as u8,
        3 => r.range(0, 255) as u8,
        _ => 1,
    };
    let k = match r.below(4) {
        0 => 1,
        1 => n,
        2 => r.range(0, 255) as u8,
        _ => r.range(1, n.max(1) as u64) as u8,
    };
    let id = match r.below(4) {
        0 => String::new(),
        1 => r.range(0, 9).to_string(),
        2 => {
            let v = r.range(0, 255) as u32;
            num_string(r, v)
        }
        _ => String::new(),
    };
    let chan: Vec<u8> = match r.below(6) {
        0 => vec![],
        1 => vec![b'A'],
        2 => vec![b'B'],
        3 => vec![field_byte(r)],
        4 => (0..r.usize(2, 5)).map(|_| field_byte(r)).collect(),
        _ => vec![b'1'],
    };
    let plen = match r.below(8) {
        0 => 1,
        1 => r.usize(1, 8),
        2 => r.usize(380, 390).min(maxlen),
        3 => r.usize(1, maxlen),
        _ => r.usize(10, 80),
    };
    let talker = if r.chance(3, 4) { **r.pick(&TALKERS) } else { [field_byte(r), field_byte(r)] };
    let formatter = match r.below(4) {
        0 => *b"VDO",
        1 => [field_byte(r), field_byte(r), field_byte(r)],
        _ => *b"VDM",
    };
    Build {
        tag: if r.chance(1, 5) {
            Some((0..r.usize(1, 30)).map(|_| { let b = r.below(256) as u8; if b == b'\\' { b'x' } else { b } }).collect())
        } else {
            None
        },
        delim: if r.chance(1, 4) { b'$' } else { b'!' },
        talker,
        formatter,
        n: num_string(r, n as u32),
        k: num_string(r, k as u32),
        id,
        chan,
        payload: payload_bytes(r, plen),
        fill: if r.chance(1, 8) { format!("0{}", r.below(6)) } else { r.below(6).to_string() },
        cks: None,
        hexstyle: r.below(5) as u8,
        tail: match r.below(5) {
            0 => b"\r".to_vec(),
            1 => b"\r\n".to_vec(),
            2 => b" trailing".to_vec(),
            _ => vec![],
        },
    }
}

/// Re-draw the presentation of a well-formed line: everything the statements about reassembly
/// and decoding give no meaning to (talker, VDM/VDO/other formatter, start delimiter, tag block,
/// channel, leading zeros of the numbers, checksum spelling, line ending, and - on a non-final
/// fragment - the fill count). Returns the channel byte and fill value written.
pub fn dress(r: &mut Rng, b: &mut Build, non_final: bool) -> (u8, u8) {
    b.talker = if r.chance(3, 4) { **r.pick(&TALKERS) } else { [field_byte(r), field_byte(r)] };
    b.formatter = match r.below(5) {
        0 | 1 => *b"VDO",
        2 => [field_byte(r), field_byte(r), field_byte(r)],
        _ => *b"VDM",
    };
    b.delim = if r.chance(1, 3) { b'$' } else { b'!' };
    // tag blocks as relays write them (NMEA 4.10): source, time stamp, line count, and the
    // grouping parameter g:<k>-<n>-<id> - on this line only, agreeing with the sentence's own
    // numbering or not, with an id that differs from line to line
    b.tag = match r.below(10) {
        0 => Some(b"s:2573345,c:1696241893*00".to_vec()),
        1 => Some(tag_with_checksum(format!("g:{}-{}-{}", b.k.trim_start_matches('0'), b.n.trim_start_matches('0'), r.below(10_000)))),
        2 => Some(tag_with_checksum(format!("g:{}-{}-{},s:r003669945,c:1241544035", b.k.trim_start_matches('0'), b.n.trim_start_matches('0'), 73874))),
        3 => Some(tag_with_checksum(format!("g:{}-{}-{},n:{}", 1 + r.below(3), 1 + r.below(5), r.below(100), r.below(1000)))),
        4 => Some(tag_with_checksum(format!("c:{},d:ABCD,t:hello,n:{}", 1_600_000_000u64 + r.below(100_000_000), r.below(100_000)))),
        _ => None,
    };
    let ch = *r.pick(b"AB12");
    b.chan = vec![ch];
    if let Ok(v) = b.n.parse::<u32>() {
        b.n = num_string(r, v);
    }
    if let Ok(v) = b.k.parse::<u32>() {
        b.k = num_string(r, v);
    }
    if let Ok(v) = b.id.parse::<u32>() {
        b.id = num_string(r, v);
    }
    let mut fill = b.fill.parse::<u8>().unwrap_or(0);
    if non_final {
        fill = r.below(6) as u8;
    }
    b.fill = if r.chance(1, 6) { format!("0{}", fill) } else { fill.to_string() };
    b.hexstyle = r.below(5) as u8;
    b.tail = match r.below(4) {
        0 => b"\r\n".to_vec(),
        1 => b"\r".to_vec(),
        _ => vec![],
    };
    (ch, fill)
}

/// tag block text followed by its own '*hh' checksum (XOR of the text)
pub fn tag_with_checksum(text: String) -> Vec<u8> {
    let x = nmea_ref::xor(text.as_bytes());
    format!("{}*{:02X}", text, x).into_bytes()
}

/// a line that is malformed in a *late* field (empty payload, impossible fill count, missing or
/// surplus field) while its header reads (n, k, id) and its checksum is right: an implementation
/// that acts on the header before it has seen the whole line would leave a trace
pub fn malformed_with_header(r: &mut Rng, n: u8, k: u8, id: Option<u8>) -> Vec<u8> {
    let mut b = Build::simple(n, k, id, b"A", &uniq_payload(7300), 0);
    match r.below(6) {
        0 => b.payload.clear(),
        1 => b.fill = "6".into(),
        2 => b.fill = "9".into(),
        3 => b.fill = String::new(),
        4 => b.fill = "0,".into(),
        _ => b.fill = "-1".into(),
    }
    b.line()
}

/// a line the statements say is inert between the fragments of an open group
pub fn inert_between(r: &mut Rng, group_id: Option<u8>, group_n: u8, next_k: u8) -> (Vec<u8>, bool, &'static str) {
    match r.below(5) {
        0 => (nmea_ref::mk(1, 1, None, b"15RTgt0PAso;90TKcjM8h6g208CQ", 0), true, "unfrag-decodable"),
        1 => (nmea_ref::mk(1, 1, Some(9), b"zzzz", 0), true, "unfrag-undecodable"),
        2 => {
            // a wrong checksum under every header shape: unfragmented, an opener with the group's
            // id or another one (it would restart / replace the group if it were looked at before
            // the checksum), the very fragment the group expects next, a final fragment
            let other = Some(group_id.map_or(4, |x| ((x as u16 + 3) % 10) as u8));
            let (mut b, cls) = match r.below(6) {
                0 => (Build::simple(1, 1, None, b"A", b"15RTgt0PAso;90TKcjM8h6g208CQ", 0), "bad-checksum"),
                1 => (Build::simple(group_n.max(2), 1, group_id, b"A", &uniq_payload(7200), 0), "bad-checksum-opener-same-id"),
                2 => (Build::simple(2, 1, other, b"A", &uniq_payload(7201), 0), "bad-checksum-opener-other-id"),
                3 => (Build::simple(9, 1, None, b"A", &uniq_payload(7202), 0), "bad-checksum-opener-no-id"),
                4 => (Build::simple(group_n, next_k, group_id, b"A", &uniq_payload(7203), 0), "bad-checksum-next-fragment"),
                _ => (Build::simple(group_n, group_n, group_id, b"A", &uniq_payload(7204), 0), "bad-checksum-final"),
            };
            b.cks = Some(nmea_ref::xor(&b.body()) ^ (1 << r.below(8)));
            (b.line(), r.bool(), cls)
        }
        3 => {
            if r.bool() {
                (b"$GPGGA,123519,4807.038,N,01131.000,E,1,08,0.9,545.4,M,46.9,M,,*47".to_vec(), false, "malformed")
            } else {
                // malformed behind a readable header: an opener with the group's id / another id / no
                // id, the expected next fragment, an unfragmented line
                let other = Some(group_id.map_or(4, |x| ((x as u16 + 3) % 10) as u8));
                let (n, k, id) = match r.below(5) {
                    0 => (group_n.max(2), 1, group_id),
                    1 => (2, 1, other),
                    2 => (9, 1, None),
                    3 => (group_n, next_k, group_id),
                    _ => (1, 1, None),
                };
                (malformed_with_header(r, n, k, id), r.bool(), "malformed-behind-header")
            }
        }
        _ => {
            // sequencing-rejected stranger: another id, half of the time with exactly the count
            // and number the open group expects next; ids that an implementation might confuse
            // with "no id" (255, 0) are preferred partners of a group without id and vice versa
            let other = match (group_id, r.below(3)) {
                (None, 0) => Some(255),
                (None, 1) => Some(0),
                (Some(255), 0) | (Some(0), 0) => None,
                (Some(_), 1) => None,
                (g, _) => Some(g.map_or(7, |x| ((x as u16 + 5) % 10) as u8)),
            };
            if r.bool() {
                (nmea_ref::mk(group_n, next_k, other, &uniq_payload(7100), 0), false, "stranger-next-number")
            } else {
                (nmea_ref::mk(5, r.range(2, 5) as u8, other, &uniq_payload(7100), 0), false, "stranger")
            }
        }
    }
}

/// Injected delay: a two-fragment group whose second fragment arrives `secs` seconds after the
/// first, on its own thread (so that the pause costs no CPU and little wall time). Returns the
/// history and, when the group did not come back whole, what was observed.
pub fn pause_probe(secs: f64) -> (Vec<(Vec<u8>, bool)>, Option<String>) {
    let mut p = Parser::with_ctor(0);
    let a = b"55P5TL01VIaAL@7WKO@mBplU@<PDhh000000001S;AJ::4A80?4i@E53";
    let b = b"1CQ@00000000000";
    let l1 = nmea_ref::mk(2, 1, Some(7), a, 0);
    let l2 = nmea_ref::mk(2, 2, Some(7), b, 2);
    let hist = vec![(l1.clone(), false), (l2.clone(), true)];
    let first = call_kind(&p.parse(&l1, false));
    if first != "Incomplete" {
        return (hist, Some(format!("first fragment returned {}", first)));
    }
    std::thread::sleep(std::time::Duration::from_millis((secs * 1000.0) as u64));
    match p.parse(&l2, true) {
        Call::Done(crate::observe::Outcome::Complete(s)) => {
            let want: Vec<u8> = [&a[..], &b[..]].concat();
            if s.data != want {
                (hist, Some(format!("payload of {} characters delivered after a pause of {} s, {} were sent", s.data.len(), secs, want.len())))
            } else if s.message.as_ref().map(|m| m.variant) != Some("StaticAndVoyageRelatedData") {
                (hist, Some(format!("decoded as {:?} after a pause of {} s", s.message.as_ref().map(|m| m.variant), secs)))
            } else {
                (hist, None)
            }
        }
        other => (hist, Some(format!("second fragment returned {} after a pause of {} s", call_kind(&other), secs))),
    }
}

/// start the pause probes of a check (one shard, std build); join with `finish_pause_probes`
pub fn start_pause_probes(ctx: &crate::mon::Ctx) -> Vec<(f64, std::thread::JoinHandle<(Vec<(Vec<u8>, bool)>, Option<String>)>)> {
    if ctx.shard != 0 || crate::mon::CFG != "std" {
        return Vec::new();
    }
    // 30 s, 60 s (and 5 min in the thorough tier) are the time-outs a maintainer would pick
    let secs: &[f64] = if ctx.thorough() { &[1.2, 31.5, 61.5, 301.5] } else { &[1.2, 31.5] };
    secs.iter().map(|s| (*s, { let s = *s; std::thread::spawn(move || pause_probe(s)) })).collect()
}

pub fn finish_pause_probes(rep: &mut crate::mon::Report, pid: &str, hs: Vec<(f64, std::thread::JoinHandle<(Vec<(Vec<u8>, bool)>, Option<String>)>)>) {
    for (secs, h) in hs {
        rep.eval();
        rep.class(format!("pause-inside-group|{}s", secs));
        rep.count("pause-probes");
        while !h.is_finished() {
            std::thread::sleep(std::time::Duration::from_millis(250));
            crate::mon::beat();
        }
        match h.join() {
            Ok((_, None)) => {}
            Ok((hist, Some(why))) => rep.violation(pid, "group-lost-after-pause".into(), format!("{} (the two fragments of a group were fed {} s apart)", why, secs), || crate::mon::replay_history(&hist, "pause inside a group (replay does not reproduce the delay)")),
            Err(_) => rep.violation(pid, "panic@pause-probe".into(), format!("the parser panicked in the pause probe ({} s)", secs), || crate::json::J::s("pause probe")),
        }
    }
}

pub fn call_kind(c: &Call) -> &'static str {
    match c {
        Call::Done(o) => o.kind(),
        Call::Panic(_) => "Panic",
    }
}

/// single-point byte mutation of a line
pub fn mutate(r: &mut Rng, line: &[u8]) -> Vec<u8> {
    let mut l = line.to_vec();
    const DICT: &[u8] = b",*!$\\0569AFGafg:\r\n\x00\x80\xff +-";
    if l.is_empty() {
        return vec![*r.pick(DICT)];
    }
    let pos = r.usize(0, l.len() - 1);
    match r.below(6) {
        0 => {
            l[pos] = r.below(256) as u8;
        }
        1 => {
            l[pos] = *r.pick(DICT);
        }
        2 => {
            l.remove(pos);
        }
        3 => {
            l.insert(pos, *r.pick(DICT));
        }
        4 => {
            let c = l[pos];
            l.insert(pos, c);
        }
        _ => {
            l.truncate(pos);
        }
    }
    l
}

/// recompute the checksum digits of a line that still has the '*HH' shape
pub fn refix_checksum(line: &mut Vec<u8>) {
    let start = match line.iter().position(|c| *c == b'!' || *c == b'$') {
        Some(s) => s + 1,
        None => return,
    };
    let star = match line[start..].iter().position(|c| *c == b'*') {
        Some(s) => start + s,
        None => return,
    };
    let x = nmea_ref::xor(&line[start..star]);
    let h = format!("{:02X}", x);
    line.truncate(star + 1);
    line.extend_from_slice(h.as_bytes());
}
