//! Helpers shared by the line-level workloads.

use crate::armor;
use crate::mon::{Call, Parser};
use crate::nmea_ref::{self, Build};
use crate::rng::Rng;

/// unique payload over the armoring alphabet: encodes `counter` so that a Complete
/// payload identifies which fragments, in which order, went into it
pub fn uniq_payload(counter: u64) -> Vec<u8> {
    // 'P' marker + 4 base-32 digits from 'A'.. (all inside the armoring alphabet) + ';'
    let mut v = vec![b'P'];
    let mut c = counter;
    for _ in 0..4 {
        v.push(b'0' + (c % 32) as u8);
        c /= 32;
    }
    v.push(b';');
    v
}

/// feed the in-order prefix (n,1..k-1,id) so that line (n,k,id) is sequencing-neutral;
/// returns the concatenated payload of the prefix and the lines fed
pub fn prime(p: &mut Parser, n: u8, k: u8, id: Option<u8>, log: &mut Vec<(Vec<u8>, bool)>) -> Vec<u8> {
    let mut acc = Vec::new();
    if n >= 2 && k >= 2 && k <= n {
        for j in 1..k {
            let pl = uniq_payload(1000 + j as u64);
            let line = nmea_ref::mk(n, j, id, &pl, 0);
            let _ = p.parse(&line, false);
            log.push((line, false));
            acc.extend_from_slice(&pl);
        }
    }
    acc
}

pub const TALKERS: [&[u8; 2]; 10] = [b"AB", b"AD", b"AI", b"AN", b"AR", b"AS", b"AT", b"AX", b"BS", b"SA"];

pub fn talker_ref(t: [u8; 2]) -> &'static str {
    match &t {
        b"AB" => "AB",
        b"AD" => "AD",
        b"AI" => "AI",
        b"AN" => "AN",
        b"AR" => "AR",
        b"AS" => "AS",
        b"AT" => "AT",
        b"AX" => "AX",
        b"BS" => "BS",
        b"SA" => "SA",
        _ => "Unknown",
    }
}

pub fn report_ref(f: [u8; 3]) -> &'static str {
    match &f {
        b"VDM" => "VDM",
        b"VDO" => "VDO",
        _ => "Unknown",
    }
}

/// a byte that is legal inside a field (no separator that would change the shape)
pub fn field_byte(r: &mut Rng) -> u8 {
    loop {
        let b = r.below(256) as u8;
        if b != b',' && b != b'*' && b != b'\n' {
            return b;
        }
    }
}

pub fn armor_chars(r: &mut Rng, len: usize) -> Vec<u8> {
    (0..len).map(|_| *r.pick(armor::ALPHABET)).collect()
}

/// random payload bytes: armoring alphabet / its edges / arbitrary field bytes
pub fn payload_bytes(r: &mut Rng, len: usize) -> Vec<u8> {
    const EDGES: &[u8] = b"0W`wVX_xv/";
    match r.below(4) {
        0 => armor_chars(r, len),
        1 => (0..len).map(|_| *r.pick(EDGES)).collect(),
        2 => (0..len).map(|_| field_byte(r)).collect(),
        _ => {
            let mut v = armor_chars(r, len);
            if len > 0 {
                let i = r.usize(0, len - 1);
                v[i] = field_byte(r);
            }
            v
        }
    }
}

pub fn num_string(r: &mut Rng, v: u32) -> String {
    match r.below(6) {
        0 => format!("0{}", v),
        1 => format!("00{}", v),
        2 => format!("{:0>12}", v),
        _ => v.to_string(),
    }
}

/// a random well-formed sentence description (all fields randomised)
pub fn random_build(r: &mut Rng, maxlen: usize) -> Build {
    let n = match r.below(5) {
        0 => 1,
        1 => 2,
        2 => r.range(1, 9) as u8,
        3 => r.range(0, 255) as u8,
        _ => 1,
    };
    let k = match r.below(4) {
        0 => 1,
        1 => n,
        2 => r.range(0, 255) as u8,
        _ => r.range(1, n.max(1) as u64) as u8,
    };
    let id = match r.below(4) {
        0 => String::new(),
        1 => r.range(0, 9).to_string(),
        2 => {
            let v = r.range(0, 255) as u32;
            num_string(r, v)
        }
        _ => String::new(),
    };
    let chan: Vec<u8> = match r.below(6) {
        0 => vec![],
        1 => vec![b'A'],
        2 => vec![b'B'],
        3 => vec![field_byte(r)],
        4 => (0..r.usize(2, 5)).map(|_| field_byte(r)).collect(),
        _ => vec![b'1'],
    };
    let plen = match r.below(8) {
        0 => 1,
        1 => r.usize(1, 8),
        2 => r.usize(380, 390).min(maxlen),
        3 => r.usize(1, maxlen),
        _ => r.usize(10, 80),
    };
    let talker = if r.chance(3, 4) { **r.pick(&TALKERS) } else { [field_byte(r), field_byte(r)] };
    let formatter = match r.below(4) {
        0 => *b"VDO",
        1 => [field_byte(r), field_byte(r), field_byte(r)],
        _ => *b"VDM",
    };
    Build {
        tag: if r.chance(1, 5) {
            Some((0..r.usize(1, 30)).map(|_| { let b = r.below(256) as u8; if b == b'\\' { b'x' } else { b } }).collect())
        } else {
            None
        },
        delim: if r.chance(1, 4) { b'$' } else { b'!' },
        talker,
        formatter,
        n: num_string(r, n as u32),
        k: num_string(r, k as u32),
        id,
        chan,
        payload: payload_bytes(r, plen),
        fill: if r.chance(1, 8) { format!("0{}", r.below(6)) } else { r.below(6).to_string() },
        cks: None,
        hexstyle: r.below(5) as u8,
        tail: match r.below(5) {
            0 => b"\r".to_vec(),
            1 => b"\r\n".to_vec(),
            2 => b" trailing".to_vec(),
            _ => vec![],
        },
    }
}

pub fn call_kind(c: &Call) -> &'static str {
    match c {
        Call::Done(o) => o.kind(),
        Call::Panic(_) => "Panic",
    }
}

/// single-point byte mutation of a line
pub fn mutate(r: &mut Rng, line: &[u8]) -> Vec<u8> {
    let mut l = line.to_vec();
    const DICT: &[u8] = b",*!$\\0569AFGafg:\r\n\x00\x80\xff +-";
    if l.is_empty() {
        return vec![*r.pick(DICT)];
    }
    let pos = r.usize(0, l.len() - 1);
    match r.below(6) {
        0 => {
            l[pos] = r.below(256) as u8;
        }
        1 => {
            l[pos] = *r.pick(DICT);
        }
        2 => {
            l.remove(pos);
        }
        3 => {
            l.insert(pos, *r.pick(DICT));
        }
        4 => {
            let c = l[pos];
            l.insert(pos, c);
        }
        _ => {
            l.truncate(pos);
        }
    }
    l
}

/// recompute the checksum digits of a line that still has the '*HH' shape
pub fn refix_checksum(line: &mut Vec<u8>) {
    let start = match line.iter().position(|c| *c == b'!' || *c == b'$') {
        Some(s) => s + 1,
        None => return,
    };
    let star = match line[start..].iter().position(|c| *c == b'*') {
        Some(s) => start + s,
        None => return,
    };
    let x = nmea_ref::xor(&line[start..star]);
    let h = format!("{:02X}", x);
    line.truncate(star + 1);
    line.extend_from_slice(h.as_bytes());
}
