//! C01 — parsing is total. The monitor is the `catch_unwind` wrapper (panic message and
//! site), the heartbeat watchdog (stall), the process exit status (abort / signal, seen by
//! the driver) and whatever sanitizer the binary was built with. No value oracle.

use super::common::*;
use crate::bits::Bits;
use crate::gen;
use crate::json::J;
use crate::mon::{self, Call, Ctx, MsgCall, Parser, Report};
use crate::nmea_ref::{self, Build};
use crate::rng::Rng;

const PID: &str = "C01";

struct Hist {
    p: Parser,
    log: Vec<(Vec<u8>, bool)>,
}

impl Hist {
    fn new() -> Self {
        Hist { p: Parser::new(), log: Vec::new() }
    }
    fn feed(&mut self, rep: &mut Report, gen: &str, line: Vec<u8>, decode: bool) {
        rep.eval();
        let c = self.p.parse(&line, decode);
        self.log.push((line, decode));
        rep.class(format!("{}:{}:decode={}", gen, call_kind(&c), decode as u8));
        if rep.samples.len() < 6 && self.log.len() % 7 == 3 {
            let (l, d) = self.log.last().unwrap().clone();
            let k = call_kind(&c);
            rep.sample(6, || {
                let mut o = J::obj();
                o.set("generator", J::s(gen));
                o.set("line", J::bytes(&l[..l.len().min(120)]));
                o.set("decode", J::Bool(d));
                o.set("returned", J::s(k));
                o
            });
        }
        if let Call::Panic(pi) = c {
            // keep the tail of the history: it is the witness
            let tail: Vec<(Vec<u8>, bool)> = self.log[self.log.len().saturating_sub(12)..].to_vec();
            rep.violation(
                PID,
                format!("panic@{}", pi.loc),
                format!("AisParser::parse panicked: '{}' at {} (generator {}, after {} lines)", pi.msg, pi.loc, gen, self.log.len() - 1),
                || mon::replay_history(&tail, gen),
            );
            self.log.clear();
        }
        if self.log.len() > 64 {
            self.log.drain(0..32);
        }
    }
}

fn hdr_line(n: u8, k: u8, id: Option<u8>, ctr: u64) -> Vec<u8> {
    nmea_ref::mk(n, k, id, &uniq_payload(ctr), 0)
}

/// generator 1: bounded-exhaustive histories over an abstract header alphabet
fn gen_header_product(ctx: &Ctx, rep: &mut Report) {
    let nk: [u8; 8] = [0, 1, 2, 3, 9, 10, 254, 255];
    let ids: [Option<u8>; 5] = [None, Some(0), Some(9), Some(10), Some(255)];
    let mut syms: Vec<(u8, u8, Option<u8>)> = Vec::new();
    for n in nk {
        for k in nk {
            for id in ids {
                syms.push((n, k, id));
            }
        }
    }
    let mut idx = 0u64;
    // all pairs over the full alphabet
    for a in &syms {
        if !ctx.mine(idx) {
            idx += 1;
            continue;
        }
        idx += 1;
        for b in &syms {
            let mut h = Hist::new();
            h.feed(rep, "hdr2", hdr_line(a.0, a.1, a.2, 1), false);
            h.feed(rep, "hdr2", hdr_line(b.0, b.1, b.2, 2), idx % 2 == 0);
        }
    }
    // all triples (quadruples in thorough) over the reduced alphabet
    let rnk: [u8; 5] = [0, 1, 2, 3, 255];
    let rids: [Option<u8>; 3] = [None, Some(1), Some(2)];
    let mut rs: Vec<(u8, u8, Option<u8>)> = Vec::new();
    for n in rnk {
        for k in rnk {
            for id in rids {
                rs.push((n, k, id));
            }
        }
    }
    for a in &rs {
        for b in &rs {
            if !ctx.mine(idx) {
                idx += 1;
                continue;
            }
            idx += 1;
            for c in &rs {
                if ctx.thorough() {
                    for d in &rs {
                        let mut h = Hist::new();
                        h.feed(rep, "hdr4", hdr_line(a.0, a.1, a.2, 1), false);
                        h.feed(rep, "hdr4", hdr_line(b.0, b.1, b.2, 2), false);
                        h.feed(rep, "hdr4", hdr_line(c.0, c.1, c.2, 3), false);
                        h.feed(rep, "hdr4", hdr_line(d.0, d.1, d.2, 4), true);
                    }
                } else {
                    let mut h = Hist::new();
                    h.feed(rep, "hdr3", hdr_line(a.0, a.1, a.2, 1), false);
                    h.feed(rep, "hdr3", hdr_line(b.0, b.1, b.2, 2), false);
                    h.feed(rep, "hdr3", hdr_line(c.0, c.1, c.2, 3), true);
                }
            }
        }
    }
}

/// generator 2: grammar-based lines, every field randomised, long-lived parser
fn gen_grammar(ctx: &Ctx, rep: &mut Report, r: &mut Rng) {
    let mut h = Hist::new();
    for i in 0..ctx.budget(150_000, 4_000_000) {
        if i % 5000 == 0 {
            h = Hist::new();
        }
        let mut b: Build = random_build(r, 400);
        if r.chance(1, 10) {
            b.cks = Some(r.below(256) as u8);
        }
        if r.chance(1, 10) {
            b.fill = r.range(6, 12).to_string();
        }
        // steer numbering towards plausible groups half of the time so state accumulates
        if r.bool() {
            let n = r.range(2, 4) as u8;
            b.n = n.to_string();
            b.k = r.range(1, n as u64).to_string();
            b.id = r.range(0, 2).to_string();
        }
        h.feed(rep, "grammar", b.line(), r.bool());
    }
}

/// generator 3: mutation of the repository corpus
fn gen_corpus_mutation(ctx: &Ctx, rep: &mut Report, r: &mut Rng) {
    let mut h = Hist::new();
    let mut corpus: Vec<Vec<u8>> = nmea_ref::CORPUS.iter().map(|l| l.to_vec()).collect();
    for p in nmea_ref::PAYLOADS {
        corpus.push(nmea_ref::mk(1, 1, None, p, 0));
        corpus.push(nmea_ref::mk(1, 1, None, p, 2));
    }
    // truncation at every position of every corpus line
    let mut idx = 0u64;
    for l in &corpus {
        for cut in 0..=l.len() {
            if ctx.mine(idx) {
                let mut t = l[..cut].to_vec();
                h.feed(rep, "corpus-trunc", t.clone(), true);
                refix_checksum(&mut t);
                h.feed(rep, "corpus-trunc-refixed", t, true);
            }
            idx += 1;
        }
    }
    for i in 0..ctx.budget(150_000, 4_000_000) {
        if i % 5000 == 0 {
            h = Hist::new();
        }
        let base = r.pick(&corpus).clone();
        let mut l = mutate(r, &base);
        for _ in 0..r.below(3) {
            l = mutate(r, &l);
        }
        if r.chance(1, 6) {
            // splice the tail of another sentence
            let other = r.pick(&corpus);
            let a = r.usize(0, l.len());
            let b = r.usize(0, other.len());
            l.truncate(a);
            l.extend_from_slice(&other[b..]);
        }
        if r.bool() {
            refix_checksum(&mut l);
        }
        h.feed(rep, "corpus-mutation", l, r.chance(3, 4));
    }
}

/// generator 4: raw bytes and delimiter soup
fn gen_raw(ctx: &Ctx, rep: &mut Report, r: &mut Rng) {
    let mut h = Hist::new();
    const DICT: &[&[u8]] = &[b"!", b"$", b"\\", b",", b"*", b"AIVDM", b"1", b"2", b"0", b"255", b"256", b"A", b"FF", b"7A", b"5", b"6", b"\r", b"w", b"0000"];
    for i in 0..ctx.budget(60_000, 1_500_000) {
        if i % 5000 == 0 {
            h = Hist::new();
        }
        let l: Vec<u8> = if r.bool() {
            let len = match r.below(4) {
                0 => r.usize(0, 8),
                1 => r.usize(0, 2048),
                _ => r.usize(0, 100),
            };
            r.bytes(len)
        } else {
            let mut v = Vec::new();
            for _ in 0..r.usize(0, 30) {
                let d: &[u8] = *r.pick(DICT);
                v.extend_from_slice(d);
            }
            v
        };
        h.feed(rep, "raw", l, r.bool());
    }
    // every single byte and every pair of delimiter-ish bytes as a whole line
    if ctx.shard == 0 {
        for a in 0..=255u8 {
            h.feed(rep, "raw-1byte", vec![a], true);
        }
    }
}

fn msg_call(rep: &mut Report, gen: &str, buf: &[u8]) {
    rep.eval();
    let c = mon::call_message(buf);
    let kind = match &c {
        MsgCall::Ok(_, _) => "Ok",
        MsgCall::Err => "Err",
        MsgCall::Panic(_) => "Panic",
    };
    rep.class(format!("{}:t{}:{}", gen, buf.first().map(|b| b >> 2).unwrap_or(255), kind));
    if let MsgCall::Panic(pi) = c {
        rep.violation(
            PID,
            format!("panic@{}", pi.loc),
            format!("messages::parse panicked on a {}-byte buffer of type {}: '{}' at {}", buf.len(), buf.first().map(|b| b >> 2).unwrap_or(0), pi.msg, pi.loc),
            || mon::replay_message(buf, gen),
        );
    }
}

/// generator 5: messages::parse directly, every type value x every length
fn gen_messages(ctx: &Ctx, rep: &mut Report, r: &mut Rng) {
    let mut idx = 0u64;
    for t in 0..64u8 {
        for len in 0..=130usize {
            if !ctx.mine(idx) {
                idx += 1;
                continue;
            }
            idx += 1;
            let reps = if ctx.thorough() { 24 } else { 3 };
            for fillkind in 0..(2 + reps) {
                let mut buf: Vec<u8> = match fillkind {
                    0 => vec![0u8; len],
                    1 => vec![0xffu8; len],
                    _ => r.bytes(len),
                };
                if len > 0 {
                    buf[0] = (t << 2) | (buf[0] & 3);
                }
                msg_call(rep, "msg-len", &buf);
            }
        }
    }
    // valid messages truncated / extended at every byte
    for b in gen::BRANCHES.iter().chain(gen::LONG_TEXT_BRANCHES.iter()) {
        if !ctx.mine(idx) {
            idx += 1;
            continue;
        }
        idx += 1;
        let bits = gen::gen_message(b, r);
        let buf = bits.to_bytes();
        for cut in 0..=buf.len() {
            msg_call(rep, "msg-trunc", &buf[..cut]);
        }
        let mut ext = buf.clone();
        for _ in 0..16 {
            ext.push(r.below(256) as u8);
            msg_call(rep, "msg-extend", &ext);
        }
    }
}

/// generator 11: every text field of every layout (incl. the long safety texts) filled with the
/// text shapes of C13 - padding mixes, one character on padding, dictionary words cut off after
/// every character: code that looks into a text (classification, trimming) must not panic on it
fn gen_text_shapes(ctx: &Ctx, rep: &mut Report, r: &mut Rng) {
    let mut idx = 0u64;
    for b in gen::BRANCHES.iter().chain(gen::LONG_TEXT_BRANCHES.iter()) {
        let fs = super::c04::fields_of(b, r, Some(13));
        for f in &fs {
            if !ctx.mine(idx) {
                idx += 1;
                continue;
            }
            idx += 1;
            let k = (f.width / 6) as usize;
            if k == 0 || k > 200 {
                continue;
            }
            for (name, chars) in super::c13::shapes(k, r) {
                if !(name == "dictionary" || name == "padding-mix" || name == "single-on-padding" || name.starts_with("all-")) {
                    continue;
                }
                let mut bits = gen::gen_message(b, r);
                for (i, c) in chars.iter().enumerate() {
                    bits.put(f.start as usize + 6 * i, 6, *c as u64);
                }
                msg_call(rep, "text-shape", &bits.to_bytes());
            }
        }
    }
}

/// generator 6: unarmor directly
fn gen_unarmor(ctx: &Ctx, rep: &mut Report, r: &mut Rng) {
    let mut call = |rep: &mut Report, s: &[u8], fill: usize, gen: &str| {
        rep.eval();
        let c = mon::call_unarmor(s, fill);
        let kind = match &c {
            Ok(Some(_)) => "Ok",
            Ok(None) => "Err",
            Err(_) => "Panic",
        };
        rep.class(format!("{}:len%4={}:fill={}:{}", gen, s.len() % 4, fill, kind));
        if let Err(pi) = c {
            rep.violation(
                PID,
                format!("panic@{}", pi.loc),
                format!("unarmor({:?}, {}) panicked: '{}' at {}", crate::json::esc_bytes(&s[..s.len().min(40)]), fill, pi.msg, pi.loc),
                || mon::replay_unarmor(s, fill, gen),
            );
        }
    };
    let mut idx = 0u64;
    for fill in 0..6 {
        if ctx.mine(idx) {
            call(rep, b"", fill, "unarmor-len0");
        }
        idx += 1;
    }
    for a in 0..=255u8 {
        if ctx.mine(idx) {
            for fill in 0..6 {
                call(rep, &[a], fill, "unarmor-len1");
            }
        }
        idx += 1;
    }
    for a in 0..=255u8 {
        if ctx.mine(idx) {
            for b in 0..=255u8 {
                for fill in 0..6 {
                    call(rep, &[a, b], fill, "unarmor-len2");
                }
            }
        }
        idx += 1;
    }
    for len in 3..=1200usize {
        if ctx.mine(idx) {
            for fill in 0..6 {
                let s = armor_chars(r, len);
                call(rep, &s, fill, "unarmor-long");
                let t = r.bytes(len);
                call(rep, &t, fill, "unarmor-long-raw");
            }
        }
        idx += 1;
    }
}

/// messages of every type through full sentences (single and fragmented), so that the
/// decode path behind `parse(line, true)` is reached with every layout
fn gen_full_sentences(ctx: &Ctx, rep: &mut Report, r: &mut Rng) {
    let mut h = Hist::new();
    for i in 0..ctx.budget(30_000, 600_000) {
        if i % 2000 == 0 {
            h = Hist::new();
        }
        let b = if r.chance(1, 8) { r.pick(gen::LONG_TEXT_BRANCHES) } else { r.pick(gen::BRANCHES) };
        let mut bits: Bits = gen::gen_message(b, r);
        if r.chance(1, 4) {
            let cut = r.usize(0, bits.len());
            bits.truncate(cut);
        }
        if bits.len() == 0 {
            continue;
        }
        let (chars, fill) = bits.to_armor();
        if r.bool() || chars.len() < 2 {
            h.feed(rep, "full-single", nmea_ref::mk(1, 1, None, &chars, fill), true);
        } else {
            let parts = r.usize(2, 4.min(chars.len()));
            let id = Some(r.below(10) as u8);
            let mut cuts: Vec<usize> = (0..parts - 1).map(|_| r.usize(1, chars.len() - 1)).collect();
            cuts.sort();
            cuts.dedup();
            let mut prev = 0;
            let n = (cuts.len() + 1) as u8;
            for (j, c) in cuts.iter().chain(std::iter::once(&chars.len())).enumerate() {
                let f = if j + 1 == n as usize { fill } else { 0 };
                h.feed(rep, "full-frag", nmea_ref::mk(n, (j + 1) as u8, id, &chars[prev..*c], f), true);
                prev = *c;
            }
        }
    }
}

/// generator 7: long in-order groups (fragment numbers up to 255), one-character payloads so
/// that they also fit the no-allocator buffer, followed by lines numbered past the end
fn gen_long_groups(ctx: &Ctx, rep: &mut Report, r: &mut Rng) {
    let sizes: [u8; 8] = [9, 10, 64, 65, 127, 128, 254, 255];
    for (i, &n) in sizes.iter().enumerate() {
        if !ctx.mine(i as u64) {
            continue;
        }
        for id in [None, Some(0u8), Some(255)] {
            for decode in [false, true] {
                let mut h = Hist::new();
                for k in 1..=n {
                    let pl = [*r.pick(crate::armor::ALPHABET)];
                    h.feed(rep, "long-group", nmea_ref::mk(n, k, id, &pl, 0), decode);
                }
                for k in [n, n.wrapping_add(1), 255, 0, 1] {
                    h.feed(rep, "long-group-tail", nmea_ref::mk(n, k, id, b"1", 0), decode);
                    h.feed(rep, "long-group-tail", nmea_ref::mk(255, k, id, b"1", 0), decode);
                }
            }
        }
    }
}

/// generator 8: payloads far beyond any AIS message (16-bit counters would wrap): unarmor
/// directly, one huge sentence, and a 255-fragment group of 50-character fragments
fn gen_huge(ctx: &Ctx, rep: &mut Report, r: &mut Rng) {
    let lens = [10_922usize, 10_923, 16_384, 21_846, 43_691, 65_536, 70_000];
    for (i, &len) in lens.iter().enumerate() {
        if !ctx.mine(i as u64) {
            continue;
        }
        let s = armor_chars(r, len);
        for fill in [0usize, 5] {
            rep.eval();
            if let Err(pi) = mon::call_unarmor(&s, fill) {
                rep.violation(PID, format!("panic@{}", pi.loc), format!("unarmor of {} characters panicked: '{}' at {}", len, pi.msg, pi.loc), || mon::replay_unarmor(&s[..64], fill, "huge (truncated in the replay)"));
            }
        }
        let mut h = Hist::new();
        let mut pl = s.clone();
        pl[0] = b'8';
        h.feed(rep, "huge-sentence", nmea_ref::mk(1, 1, None, &pl, 0), true);
        h.feed(rep, "huge-sentence", nmea_ref::mk(2, 1, Some(1), &pl, 0), true);
    }
    if ctx.mine(7) {
        for decode in [false, true] {
            let mut h = Hist::new();
            for k in 1..=255u8 {
                let mut pl = armor_chars(r, 50);
                if k == 1 {
                    pl[0] = b'8';
                }
                h.feed(rep, "huge-group", nmea_ref::mk(255, k, Some(3), &pl, 0), decode);
            }
        }
    }
}

/// generator 9: lines that are valid UTF-8 text with multi-byte characters at every offset
/// (receiver logs contain comments and station names; byte-level generators only ever
/// produce ASCII or invalid UTF-8)
fn gen_utf8_text(ctx: &Ctx, rep: &mut Report, r: &mut Rng) {
    let wide: [&str; 6] = ["\u{e9}", "\u{fc}", "\u{20ac}", "\u{2603}", "\u{1f600}", "\u{10ffff}"];
    let mut h = Hist::new();
    let mut idx = 0u64;
    for prefix in 0..=130usize {
        if !ctx.mine(idx) {
            idx += 1;
            continue;
        }
        idx += 1;
        for w in wide {
            for head in ["", "!AIVDM,1,1,,A,", "$GPTXT,", "\\c:1\\!AIVDM,", "# "] {
                let mut l = String::from(head);
                while l.len() < prefix {
                    l.push((b'a' + (l.len() % 26) as u8) as char);
                }
                for _ in 0..r.usize(1, 40) {
                    l.push_str(w);
                }
                l.push_str(",0*00 tail");
                h.feed(rep, "utf8-text", l.into_bytes(), r.bool());
            }
        }
    }
    // corpus sentences with wide characters inserted at random character positions
    for _ in 0..ctx.budget(4_000, 100_000) {
        let cb: &[u8] = *r.pick(nmea_ref::CORPUS);
        let base = String::from_utf8_lossy(cb).into_owned();
        let mut chars: Vec<char> = base.chars().collect();
        for _ in 0..r.usize(1, 4) {
            let pos = r.usize(0, chars.len());
            let w = r.pick(&wide).chars().next().unwrap();
            chars.insert(pos, w);
        }
        let mut l: Vec<u8> = chars.into_iter().collect::<String>().into_bytes();
        if r.bool() {
            refix_checksum(&mut l);
        }
        h.feed(rep, "utf8-corpus", l, r.bool());
    }
}

/// generator 10: one grammar element repeated a thousand to a million times in front of, inside
/// or behind an otherwise valid sentence. A parser that recurses or loops per element (tag blocks,
/// delimiters, separators, digits, checksum digits) must come back with a value - deep recursion
/// ends the process, which the driver reports as a violation with the last traced input.
fn gen_repetition(ctx: &Ctx, rep: &mut Report, r: &mut Rng) {
    let body = "AIVDM,1,1,,A,15RTgt0PAso;90TKcjM8h6g208CQ,0";
    let x = nmea_ref::xor(body.as_bytes());
    let good = format!("!{}*{:02X}", body, x).into_bytes();
    let tokens: [&[u8]; 14] = [b"\\a\\", b"\\\\", b"\\", b"!", b"$", b"!$", b",", b"*", b"0", b"9", b"!AIVDM,", b"\\s:1*00\\", b"\r", b" "];
    let counts: &[usize] = if ctx.thorough() { &[1_000, 50_000, 400_000, 1_000_000, 3_000_000] } else { &[1_000, 50_000, 400_000, 1_000_000] };
    let mut item = 3000u64;
    for tok in tokens.iter() {
        for &n in counts {
            for place in 0..3u8 {
                if !ctx.mine(item) {
                    item += 1;
                    continue;
                }
                item += 1;
                let rept: Vec<u8> = tok.iter().cycle().take(tok.len() * n).cloned().collect();
                let line: Vec<u8> = match place {
                    0 => [rept.as_slice(), good.as_slice()].concat(),
                    1 => {
                        // inside: after the start delimiter's address field
                        let mut l = good[..7].to_vec();
                        l.extend_from_slice(&rept);
                        l.extend_from_slice(&good[7..]);
                        l
                    }
                    _ => [good.as_slice(), rept.as_slice()].concat(),
                };
                let mut h = Hist::new();
                h.feed(rep, "repetition", line, r.bool());
                h.feed(rep, "repetition-after", good.clone(), true);
            }
        }
    }
}

pub fn run(ctx: &Ctx, rep: &mut Report) {
    // one very long unarmor call (std build, one shard): past 2^31 bits a signed 32-bit bit offset
    // overflows; only a panic counts here (the value is C03's)
    if mon::CFG == "std" && ctx.shard == 0 {
        super::c03::big_unarmor_probe(rep, PID, 357_913_942 + 10, false);
        if ctx.thorough() {
            super::c03::big_unarmor_probe(rep, PID, 715_827_883 + 9, false);
        }
    }
    let mut r = ctx.rng("c01");
    // (std / alloc) openers of many-fragment groups whose payload length times the announced count
    // passes 2^24, 2^31 and 2^32: sizing arithmetic on untrusted header values
    if !mon::is_noalloc() && ctx.shard == 1 % ctx.nshards {
        for (len, n) in [(70_000usize, 255u8), (8_500_000, 255), (16_900_000, 255), (16_900_000, 128), (33_600_000, 255)] {
            if len > 20_000_000 && !ctx.thorough() {
                continue;
            }
            let mut h = Hist::new();
            let pl: Vec<u8> = std::iter::repeat(b'w').take(len).collect();
            h.feed(rep, "long-opener", nmea_ref::mk(n, 1, Some(3), &pl, 0), false);
            h.feed(rep, "long-opener", nmea_ref::mk(n, 2, Some(3), b"0", 0), true);
        }
    }
    // ... and the same product for a *middle* fragment: a small opener, then fragment k >= 2 of a
    // many-fragment group carrying 8.5 to 17 million characters (34 million thorough), then the next
    // small one - (fragments still to come) x (length) passes 2^31 and 2^32 here as well
    if !mon::is_noalloc() && ctx.shard == 2 % ctx.nshards {
        for (len, n, k) in [(8_500_000usize, 255u8, 2u8), (16_980_000, 255, 2), (17_100_000, 255, 3), (34_000_000, 128, 2), (17_000_000, 255, 127)] {
            if len > 20_000_000 && !ctx.thorough() {
                continue;
            }
            let mut h = Hist::new();
            for j in 1..k {
                h.feed(rep, "long-middle", nmea_ref::mk(n, j, Some(3), b"15M", 0), false);
            }
            let pl: Vec<u8> = std::iter::repeat(b'w').take(len).collect();
            h.feed(rep, "long-middle", nmea_ref::mk(n, k, Some(3), &pl, 0), false);
            h.feed(rep, "long-middle", nmea_ref::mk(n, k + 1, Some(3), b"0", 0), true);
        }
    }
    gen_repetition(ctx, rep, &mut r);
    gen_utf8_text(ctx, rep, &mut r);
    gen_huge(ctx, rep, &mut r);
    gen_long_groups(ctx, rep, &mut r);
    gen_header_product(ctx, rep);
    gen_grammar(ctx, rep, &mut r);
    gen_corpus_mutation(ctx, rep, &mut r);
    gen_raw(ctx, rep, &mut r);
    gen_messages(ctx, rep, &mut r);
    gen_text_shapes(ctx, rep, &mut r);
    gen_unarmor(ctx, rep, &mut r);
    gen_full_sentences(ctx, rep, &mut r);
    rep.sample(3, || {
        let mut o = J::obj();
        o.set("generator", J::s("grammar"));
        let mut rr = Rng::new(ctx.seed);
        o.set("line", J::bytes(&random_build(&mut rr, 60).line()));
        o
    });
    rep.sample(4, || {
        let mut o = J::obj();
        o.set("generator", J::s("hdr3"));
        o.set("history", J::Arr(vec![J::bytes(&hdr_line(3, 1, Some(1), 1)), J::bytes(&hdr_line(3, 2, Some(1), 2)), J::bytes(&hdr_line(3, 0, Some(1), 3))]));
        o
    });
}

/// Miri-sized workload (each call costs milliseconds there): a few hundred calls per shard,
/// weighted to the paths where unsafe code and fixed-capacity containers live (no-alloc
/// `many_m_n` / `count`, heapless vectors and strings, reassembly buffers).
pub fn run_miri(ctx: &Ctx, rep: &mut Report) {
    let mut r = ctx.rng("c01-miri");
    let mut h = Hist::new();
    // header histories incl. the patterns that once panicked
    let pats: [&[(u8, u8, Option<u8>)]; 4] = [
        &[(3, 1, Some(1)), (3, 2, Some(1)), (3, 0, Some(1))],
        &[(2, 1, None), (2, 2, None), (3, 3, None), (4, 4, None)],
        &[(255, 1, Some(9)), (255, 2, Some(9)), (255, 255, Some(9))],
        &[(0, 0, None), (0, 1, None), (1, 0, None), (1, 2, None)],
    ];
    for p in pats {
        h = Hist::new();
        for (i, (n, k, id)) in p.iter().enumerate() {
            h.feed(rep, "miri-hdr", hdr_line(*n, *k, *id, i as u64), i % 2 == 0);
        }
    }
    // every layout branch once by each route that matters; lists with 1..6 elements
    let branches: Vec<&gen::Branch> = gen::BRANCHES.iter().chain(gen::LONG_TEXT_BRANCHES.iter()).collect();
    for (i, b) in branches.iter().enumerate() {
        if !ctx.mine(i as u64) {
            continue;
        }
        let bits = gen::gen_message(b, &mut r);
        msg_call(rep, "miri-msg", &bits.to_bytes());
        let (chars, fill) = bits.to_armor();
        if chars.len() <= 384 {
            h.feed(rep, "miri-line", nmea_ref::mk(1, 1, None, &chars, fill), true);
        }
        let mut t = bits.clone();
        let cut = r.usize(0, t.len());
        t.truncate(cut);
        msg_call(rep, "miri-msg-trunc", &t.to_bytes());
    }
    for (t, el) in [(7u8, 32usize), (13, 32), (20, 30)] {
        for cnt in 0..=9usize {
            if !ctx.mine((t as usize + cnt) as u64) {
                continue;
            }
            let mut bits = Bits::random(40 + el * cnt, &mut r);
            bits.put(0, 6, t as u64);
            msg_call(rep, "miri-list", &bits.to_bytes());
        }
    }
    for chars in [1usize, 19, 20, 21, 22, 40] {
        if !ctx.mine(chars as u64) {
            continue;
        }
        for (t, hdr) in [(12u8, 72usize), (14, 40)] {
            let mut bits = Bits::random(hdr + 6 * chars, &mut r);
            bits.put(0, 6, t as u64);
            msg_call(rep, "miri-text", &bits.to_bytes());
        }
    }
    // reassembly up to and beyond the fixed buffer
    if ctx.mine(3) {
        let mut hh = Hist::new();
        for (k, len) in [(1u8, 200usize), (2, 184), (3, 1), (4, 50)] {
            hh.feed(rep, "miri-capacity", nmea_ref::mk(4, k, Some(1), &armor_chars(&mut r, len), 0), false);
        }
        hh.feed(rep, "miri-capacity", nmea_ref::mk(1, 1, None, &armor_chars(&mut r, 385), 0), true);
    }
    // unarmor around the interesting lengths
    for len in [0usize, 1, 2, 3, 4, 5, 511, 512, 513] {
        if !ctx.mine(len as u64) {
            continue;
        }
        for fill in [0usize, 1, 5] {
            let s = armor_chars(&mut r, len);
            rep.eval();
            if let Err(pi) = mon::call_unarmor(&s, fill) {
                rep.violation(PID, format!("panic@{}", pi.loc), pi.msg.clone(), || mon::replay_unarmor(&s, fill, "miri-unarmor"));
            }
        }
    }
    // a group whose delivery fails while unarmoring, then a stale tail and the odd "1 of 0" line;
    // names consisting of blanks followed only by '@' padding (trim corner)
    if ctx.mine(5) {
        let mut hh = Hist::new();
        hh.feed(rep, "miri-bad-armor-group", nmea_ref::mk(2, 1, Some(3), b"1X00", 0), true);
        hh.feed(rep, "miri-bad-armor-group", nmea_ref::mk(2, 2, Some(3), b"0000", 0), true);
        hh.feed(rep, "miri-bad-armor-group", nmea_ref::mk(3, 3, Some(3), b"wwww", 0), true);
        hh.feed(rep, "miri-bad-armor-group", nmea_ref::mk(0, 1, None, b"13u?etPv2;0n:dDPwUM1U1Cb069D", 0), true);
        for blanks in [1usize, 2, 19, 20] {
            let mut bits = Bits::zeros(160);
            bits.put(0, 6, 24);
            bits.put(8, 30, 227006760);
            for i in 0..blanks.min(20) {
                bits.put(40 + 6 * i, 6, 32);
            }
            msg_call(rep, "miri-blank-then-at", &bits.to_bytes());
        }
    }
    // a little grammar / mutation traffic
    for _ in 0..ctx.budget(12, 60) {
        let b = random_build(&mut r, 100);
        h.feed(rep, "miri-grammar", b.line(), r.bool());
        let base = r.pick(nmea_ref::CORPUS).to_vec();
        h.feed(rep, "miri-mutation", mutate(&mut r, &base), true);
    }
}
