//! Self-checks of the reference models against each other and against values the
//! repository's own tests assert (an independent gold set).

use crate::armor::{self, unarmor_ref};
use crate::bits::Bits;
use crate::decode_ref::decode_ref;
use crate::nmea_ref::{self, Scan};
use crate::val::*;

fn field<'a>(m: &'a RefMsg, key: &str, idx: u8) -> Option<&'a Exp> {
    m.f.iter().find(|f| f.key == key && f.idx == idx).map(|f| &f.exp)
}

pub fn run() -> i32 {
    let mut fails = 0;
    let mut check = |name: &str, ok: bool| {
        if !ok {
            eprintln!("SELFTEST FAIL: {}", name);
            fails += 1;
        }
    };
    // armor / unarmor are inverse on every 6-bit group sequence of length <= 2
    for a in 0..64u8 {
        check("chr/val", armor::val(armor::chr(a)) == Some(a));
        for b in 0..64u8 {
            let s = [armor::chr(a), armor::chr(b)];
            let u = unarmor_ref(&s, 0).unwrap();
            let bits = Bits::from_bytes(&u);
            check("unarmor bits", bits.uint(0, 6) == a as u64 && bits.uint(6, 6) == b as u64 && bits.uint(12, 4) == 0);
        }
    }
    // the repository's unarmor test vectors
    check("unarmor 9", unarmor_ref(b"9", 0) == Some(vec![0b0010_0100]));
    check("unarmor 9 fill 4", unarmor_ref(b"9", 4) == Some(vec![0]));
    check("unarmor 9q", unarmor_ref(b"9q", 0) == Some(vec![0b0010_0111, 0b1001_0000]));
    check("unarmor 9qKr", unarmor_ref(b"9qKr", 0) == Some(vec![0b0010_0111, 0b1001_0110, 0b1111_1010]));
    check("unarmor 9qWr fill 4", unarmor_ref(b"9qWr", 4) == Some(vec![0b0010_0111, 0b1001_1001, 0b1111_0000]));
    check("unarmor 9qW fill 3", unarmor_ref(b"9qW", 3) == Some(vec![0b0010_0111, 0b1001_1000, 0]));
    // every corpus sentence is in the language with a matching checksum, except the two
    // continuation-numbered ones which are still well-formed
    for l in nmea_ref::CORPUS {
        match nmea_ref::scan(l) {
            Scan::Accept(f) => check("corpus checksum", f.tx == f.body_xor),
            other => check(&format!("corpus scan {:?}", other), false),
        }
    }
    // gold values asserted by the repository's tests
    let gold = |payload: &[u8], fill: usize| -> Option<RefMsg> {
        match decode_ref(&armor::unarmored_bits(payload, fill)?) {
            RefOut::Msg(m) => Some(m),
            _ => None,
        }
    };
    if let Some(m) = gold(b"E>kb9O9aS@7PUh10dh19@;0Tah2cWrfP:l?M`00003vP100", 0) {
        check("t21 mmsi", field(&m, "mmsi", 255) == Some(&Exp::U(993692028)));
        check("t21 name", field(&m, "name", 255) == Some(&Exp::T("SF OAK BAY BR VAIS E".into())));
        check("t21 variant", m.variant == "AidToNavigationReport");
    } else {
        check("t21 decodes", false);
    }
    if let Some(m) = gold(b"403OtVAv6s5l1o?I``E`4I?02<34", 0) {
        check("t4 mmsi", field(&m, "mmsi", 255) == Some(&Exp::U(3669145)));
        check("t4 variant", m.variant == "BaseStationReport");
    } else {
        check("t4 decodes", false);
    }
    if let Some(m) = gold(b"53`soB8000010KSOW<0P4eDp4l6000000000000U0p<24t@P05H3S833CDP000000000000", 2) {
        check("t5 variant", m.variant == "StaticAndVoyageRelatedData");
        check("t5 callsign", matches!(field(&m, "callsign", 255), Some(Exp::T(_))));
    } else {
        check("t5 decodes", false);
    }
    // generated messages decode (in the reference) to what was put in
    let mut r = crate::rng::Rng::new(7);
    for b in crate::gen::BRANCHES {
        let bits = crate::gen::gen_message(b, &mut r);
        let view = Bits::from_bytes(&bits.to_bytes());
        match decode_ref(&view) {
            RefOut::Msg(m) => {
                check(&format!("{} must_ok", b.name), m.must_ok);
                check(&format!("{} type", b.name), m.mtype == b.t);
                for f in &m.f {
                    if let Exp::U(v) = f.exp {
                        if f.width > 0 {
                            check(&format!("{} field {}", b.name, f.key), bits.uint(f.start as usize, f.width as usize) == v);
                        }
                    }
                }
            }
            other => check(&format!("{} decode_ref {:?}", b.name, other), false),
        }
        let (_, _, aview) = crate::gen::armored_view(&bits);
        check(&format!("{} armored must_ok", b.name), matches!(decode_ref(&aview), RefOut::Msg(m) if m.must_ok));
    }
    if fails == 0 {
        println!("selftest ok");
        0
    } else {
        1
    }
}
