//! Self-checks of the reference models against each other and against values the
//! repository's own tests assert (an independent gold set).

use crate::armor::{self, unarmor_ref};
use crate::bits::Bits;
use crate::decode_ref::decode_ref;
use crate::nmea_ref::{self, Scan};
use crate::val::*;

fn field<'a>(m: &'a RefMsg, key: &str, idx: u8) -> Option<&'a Exp> {
    m.f.iter().find(|f| f.key == key && f.idx == idx).map(|f| &f.exp)
}

pub fn run() -> i32 {
    let mut fails = 0;
    let mut check = |name: &str, ok: bool| {
        if !ok {
            eprintln!("SELFTEST FAIL: {}", name);
            fails += 1;
        }
    };
    // armor / unarmor are inverse on every 6-bit group sequence of length <= 2
    for a in 0..64u8 {
        check("chr/val", armor::val(armor::chr(a)) == Some(a));
        for b in 0..64u8 {
            let s = [armor::chr(a), armor::chr(b)];
            let u = unarmor_ref(&s, 0).unwrap();
            let bits = Bits::from_bytes(&u);
            check("unarmor bits", bits.uint(0, 6) == a as u64 && bits.uint(6, 6) == b as u64 && bits.uint(12, 4) == 0);
        }
    }
    // the repository's unarmor test vectors
    check("unarmor 9", unarmor_ref(b"9", 0) == Some(vec![0b0010_0100]));
    check("unarmor 9 fill 4", unarmor_ref(b"9", 4) == Some(vec![0]));
    check("unarmor 9q", unarmor_ref(b"9q", 0) == Some(vec![0b0010_0111, 0b1001_0000]));
    check("unarmor 9qKr", unarmor_ref(b"9qKr", 0) == Some(vec![0b0010_0111, 0b1001_0110, 0b1111_1010]));
    check("unarmor 9qWr fill 4", unarmor_ref(b"9qWr", 4) == Some(vec![0b0010_0111, 0b1001_1001, 0b1111_0000]));
    check("unarmor 9qW fill 3", unarmor_ref(b"9qW", 3) == Some(vec![0b0010_0111, 0b1001_1000, 0]));
    // every corpus sentence is in the language with a matching checksum, except the two
    // continuation-numbered ones which are still well-formed
    for l in nmea_ref::CORPUS {
        match nmea_ref::scan(l) {
            Scan::Accept(f) => check("corpus checksum", f.tx == f.body_xor),
            other => check(&format!("corpus scan {:?}", other), false),
        }
    }
    // gold values asserted by the repository's tests
    let gold = |payload: &[u8], fill: usize| -> Option<RefMsg> {
        match decode_ref(&armor::unarmored_bits(payload, fill)?) {
            RefOut::Msg(m) => Some(m),
            _ => None,
        }
    };
    if let Some(m) = gold(b"E>kb9O9aS@7PUh10dh19@;0Tah2cWrfP:l?M`00003vP100", 0) {
        check("t21 mmsi", field(&m, "mmsi", 255) == Some(&Exp::U(993692028)));
        check("t21 name", field(&m, "name", 255) == Some(&Exp::T("SF OAK BAY BR VAIS E".into())));
        check("t21 variant", m.variant == "AidToNavigationReport");
    } else {
        check("t21 decodes", false);
    }
    if let Some(m) = gold(b"403OtVAv6s5l1o?I``E`4I?02<34", 0) {
        check("t4 mmsi", field(&m, "mmsi", 255) == Some(&Exp::U(3669145)));
        check("t4 variant", m.variant == "BaseStationReport");
    } else {
        check("t4 decodes", false);
    }
    if let Some(m) = gold(b"53`soB8000010KSOW<0P4eDp4l6000000000000U0p<24t@P05H3S833CDP000000000000", 2) {
        check("t5 variant", m.variant == "StaticAndVoyageRelatedData");
        check("t5 callsign", matches!(field(&m, "callsign", 255), Some(Exp::T(_))));
    } else {
        check("t5 decodes", false);
    }
    // more gold values asserted by the repository's tests (independent of this harness):
    // (payload, fill, [(key, idx, expected)])
    let u = |v: u64| Exp::U(v);
    let t = |v: &str| Exp::T(v.to_string());
    let n = |v: &str| Exp::N(v.to_string());
    let golds: Vec<(&[u8], usize, Vec<(&str, u8, Exp)>)> = vec![
        (b"13u?etPv2;0n:dDPwUM1U1Cb069D", 0, vec![("mmsi", 255, u(265547250)), ("timestamp", 255, u(53)), ("true_heading", 255, Exp::OU(Some(41))), ("maneuver_indicator", 255, n("None")), ("raim", 255, Exp::B(false)),
            ("radio_status", 255, Exp::Comm(vec![Comm::Sotdma { sync: 0, timeout: 1, sub: Sub::Utc(17, 21) }]))]),
        (b"16SteH0P00Jt63hHaa6SagvJ087r", 0, vec![("radio_status", 255, Exp::Comm(vec![Comm::Sotdma { sync: 0, timeout: 2, sub: Sub::SlotNumber(506) }]))]),
        (b"38Id705000rRVJhE7cl9n;160000", 0, vec![("mmsi", 255, u(563808000)), ("true_heading", 255, Exp::OU(Some(352))), ("timestamp", 255, u(35)),
            ("radio_status", 255, Exp::Comm(vec![Comm::Itdma { sync: 0, incr: 0, slots: 0, keep: false }]))]),
        (b"403OtVAv7=i?;o?IaHE`4Iw020S:", 0, vec![("mmsi", 255, u(3669145)), ("year", 255, Exp::OU(Some(2017))), ("month", 255, Exp::OU(Some(12))), ("day", 255, Exp::OU(Some(27))), ("hour", 255, u(17)),
            ("minute", 255, Exp::OU(Some(15))), ("second", 255, Exp::OU(Some(11))), ("fix_quality", 255, n("Dgps")), ("epfd_type", 255, n("None")), ("raim", 255, Exp::B(true)),
            ("radio_status", 255, Exp::Comm(vec![Comm::Sotdma { sync: 0, timeout: 0, sub: Sub::Offset(2250) }]))]),
        (b"403OviQuMGCqWrRO9>E6fE700@GO", 0, vec![("mmsi", 255, u(3669702)), ("year", 255, Exp::OU(Some(2007))), ("epfd_type", 255, n("Some(Surveyed)")),
            ("radio_status", 255, Exp::Comm(vec![Comm::Sotdma { sync: 0, timeout: 4, sub: Sub::SlotNumber(1503) }]))]),
        (b"5341U9`00000uCGCKL0u=@T4000000000000001?<@<47u;b004Sm51DQ0C@", 0, vec![("mmsi", 255, u(205546790)), ("callsign", 255, t("OT5467")), ("eta_month_utc", 255, Exp::OU(Some(4))), ("destination", 255, t("ROTTERDAM"))]),
        (b"53`soB8000010KSOW<0P4eDp4l6000000000000U0p<24t@P05H3S833CDP000000000000", 0, vec![("mmsi", 255, u(244250440)), ("callsign", 255, t("PF8793")), ("ship_type", 255, n("Some(PleasureCraft)")), ("destination", 255, t("NL LMMR"))]),
        (b"6B?n;be:cbapalgc;i6?Ow4", 2, vec![("repeat_indicator", 255, u(1)), ("mmsi", 255, u(150834090)), ("seqno", 255, u(3)), ("dest_mmsi", 255, u(313240222)), ("dac", 255, u(669)), ("fid", 255, u(11))]),
        (b"6>jR0600V:C0>da4P106P00", 2, vec![("mmsi", 255, u(992509976)), ("dest_mmsi", 255, u(2500912)), ("dac", 255, u(235)), ("fid", 255, u(10))]),
        (b"702R5`hwCt40", 0, vec![("mmsi", 255, u(2655651)), ("acks.len", 255, u(1)), ("acks.mmsi", 0, u(265547840)), ("acks.seq", 0, u(0))]),
        (b"91b55wi;hbOS@OdQAC062Ch2089h", 0, vec![("mmsi", 255, u(111232511)), ("altitude", 255, Exp::OU(Some(303))), ("timestamp", 255, u(15)), ("dte", 255, n("NotReady")), ("raim", 255, Exp::B(false))]),
        (b":5MlU41GMK6@", 0, vec![("mmsi", 255, u(366814480)), ("dest_mmsi", 255, u(366832740))]),
        (b"<5?SIj1;GbD07??4", 0, vec![("mmsi", 255, u(351853000)), ("dest_mmsi", 255, u(316123456)), ("text", 255, t("GOOD"))]),
        (b"<42Lati0W:Ov=C7P6B?=Pjoihhjhqq0", 2, vec![("mmsi", 255, u(271002099)), ("retransmit", 255, Exp::B(true)), ("text", 255, t("MSG FROM 271002099"))]),
        (b"@6STUk004lQ206bCKNOBAb6SJ@5s", 0, vec![("mmsi", 255, u(439952844)), ("mmsi1", 255, u(315920)), ("offset1", 255, u(2049)), ("increment1", 255, u(681)), ("mmsi2", 255, Exp::OU(Some(230137673))), ("offset2", 255, Exp::OU(Some(424))), ("increment2", 255, Exp::OU(Some(419)))]),
        (b"@01uEO@mMk7P<P00", 0, vec![("mmsi1", 255, u(224251000)), ("offset1", 255, u(200)), ("mmsi2", 255, Exp::OU(None))]),
        (b"B6:hQDh0029Pt<4TAS003h6TSP00", 0, vec![("mmsi", 255, u(413933907)), ("true_heading", 255, Exp::OU(Some(480))), ("timestamp", 255, u(13)), ("cs_unit", 255, n("CarrierSense")), ("whole_band", 255, Exp::B(true)),
            ("radio_status", 255, Exp::Comm(vec![Comm::Itdma { sync: 3, incr: 0, slots: 0, keep: false }]))]),
        (b"C6:ijoP00:9NNF4TEspILDN0Vc0jNc1WWV0000000000S2<6R20P", 0, vec![("mmsi", 255, u(413954782)), ("name", 255, t("SU YOU 333")), ("type_of_ship_and_cargo", 255, n("Some(Cargo)")), ("dimension_to_bow", 255, u(35)), ("dimension_to_stern", 255, u(13)), ("dimension_to_port", 255, u(4)), ("timestamp", 255, u(60)), ("dte", 255, n("NotReady"))]),
        (b"D02<HjiUHBfr<`E6D0", 0, vec![("mmsi", 255, u(2300107)), ("res.len", 255, u(2)), ("res.num_slots", 0, u(1)), ("res.increment", 1, u(1125))]),
        (b"D02;bK0RlLfq6DM6DA8u6D0", 0, vec![("mmsi", 255, u(2288236)), ("res.len", 255, u(3)), ("res.increment", 2, u(1125))]),
        (b"H6:lEgQL4r1<QDr0P4pN3KSKP00", 0, vec![("mmsi", 255, u(413996478)), ("vessel_name", 255, t("WAN SHUN HANG 6868"))]),
        (b"H3mr@L4NC=D62?P<7nmpl00@8220", 0, vec![("mmsi", 255, u(257855600)), ("ship_type", 255, n("Some(Fishing)")), ("vendor_id", 255, t("SMT")), ("model_serial", 255, t("FBO")), ("callsign", 255, t("LG6584")), ("dimension_to_stern", 255, u(8))]),
        (b"H>cfmI4UFC@0DAN00000000H3110", 0, vec![("mmsi", 255, u(985380196)), ("ship_type", 255, n("Some(PleasureCraft)")), ("vendor_id", 255, t("VSP")), ("serial_number", 255, u(83038)), ("dimension_to_bow", 255, u(3))]),
        (b"KC5E2b@U19PFdLbMuc5=ROv62<7m", 0, vec![("repeat_indicator", 255, u(1)), ("mmsi", 255, u(206914217)), ("raim", 255, Exp::B(false)), ("gnss_position_status", 255, Exp::B(false))]),
        (b"K01;FQh?PbtE3P00", 0, vec![("mmsi", 255, u(1234567))]),
        (b"?04759iVhc2lD003000", 2, vec![("mmsi", 255, u(4310311)), ("stations.len", 255, u(1)), ("st.mmsi", 0, u(431008813)), ("st.msgs.len", 0, u(2)), ("st.msg.type", 0, u(5)), ("st.msg.type", 1, u(3))]),
        (b"?03Owo@nwsI0D00", 2, vec![("mmsi", 255, u(3669981)), ("st.mmsi", 0, u(230682000)), ("st.msg.type", 0, u(5))]),
    ];
    for (pl, fill, exps) in &golds {
        match gold(pl, *fill) {
            None => check(&format!("gold {:?} decodes", String::from_utf8_lossy(pl)), false),
            Some(m) => {
                for (k, idx, e) in exps {
                    check(&format!("gold {:?} field {}[{}] = {:?}, model says {:?}", String::from_utf8_lossy(pl), k, idx, e, field(&m, k, *idx)), field(&m, k, *idx) == Some(e));
                }
            }
        }
    }
    // floats asserted by the repository's tests (to their printed precision)
    let fgold: Vec<(&[u8], usize, &str, f64)> = vec![
        (b"13u?etPv2;0n:dDPwUM1U1Cb069D", 0, "speed_over_ground", 13.9),
        (b"13u?etPv2;0n:dDPwUM1U1Cb069D", 0, "course_over_ground", 40.4),
        (b"16SteH0P00Jt63hHaa6SagvJ087r", 0, "longitude", -70.7582),
        (b"38Id705000rRVJhE7cl9n;160000", 0, "longitude", -76.32753),
        (b"38Id705000rRVJhE7cl9n;160000", 0, "latitude", 36.91),
        (b"403OtVAv7=i?;o?IaHE`4Iw020S:", 0, "longitude", -122.464775),
        (b"403OtVAv7=i?;o?IaHE`4Iw020S:", 0, "latitude", 37.794308),
        (b"53`soB8000010KSOW<0P4eDp4l6000000000000U0p<24t@P05H3S833CDP000000000000", 0, "draught", 2.1),
        (b"91b55wi;hbOS@OdQAC062Ch2089h", 0, "speed_over_ground", 42.0),
        (b"91b55wi;hbOS@OdQAC062Ch2089h", 0, "longitude", -6.2788434),
        (b"91b55wi;hbOS@OdQAC062Ch2089h", 0, "latitude", 58.144),
        (b"91b55wi;hbOS@OdQAC062Ch2089h", 0, "course_over_ground", 154.5),
        (b"B6:hQDh0029Pt<4TAS003h6TSP00", 0, "longitude", 120.16217),
        (b"B6:hQDh0029Pt<4TAS003h6TSP00", 0, "latitude", 31.924133),
        (b"C6:ijoP00:9NNF4TEspILDN0Vc0jNc1WWV0000000000S2<6R20P", 0, "course_over_ground", 40.7),
        (b"KC5E2b@U19PFdLbMuc5=ROv62<7m", 0, "longitude", 137.02333),
        (b"KC5E2b@U19PFdLbMuc5=ROv62<7m", 0, "latitude", 4.84),
        (b"KC5E2b@U19PFdLbMuc5=ROv62<7m", 0, "speed_over_ground", 57.0),
        (b"KC5E2b@U19PFdLbMuc5=ROv62<7m", 0, "course_over_ground", 167.0),
        (b"K01;FQh?PbtE3P00", 0, "longitude", -13.368334),
        (b"K01;FQh?PbtE3P00", 0, "latitude", -50.121665),
    ];
    for (pl, fill, k, want) in &fgold {
        let got = gold(pl, *fill).and_then(|m| match field(&m, k, 255) {
            Some(Exp::F(Some(x))) => Some(*x),
            _ => None,
        });
        check(&format!("gold float {:?} {} = {}, model says {:?}", String::from_utf8_lossy(pl), k, want, got), got.map_or(false, |x| (x - want).abs() <= 1e-5 * want.abs().max(1.0)));
    }
    // generated messages decode (in the reference) to what was put in
    let mut r = crate::rng::Rng::new(7);
    for b in crate::gen::BRANCHES {
        let bits = crate::gen::gen_message(b, &mut r);
        let view = Bits::from_bytes(&bits.to_bytes());
        match decode_ref(&view) {
            RefOut::Msg(m) => {
                check(&format!("{} must_ok", b.name), m.must_ok);
                check(&format!("{} type", b.name), m.mtype == b.t);
                for f in &m.f {
                    if let Exp::U(v) = f.exp {
                        if f.width > 0 {
                            check(&format!("{} field {}", b.name, f.key), bits.uint(f.start as usize, f.width as usize) == v);
                        }
                    }
                }
            }
            other => check(&format!("{} decode_ref {:?}", b.name, other), false),
        }
        let (_, _, aview) = crate::gen::armored_view(&bits);
        check(&format!("{} armored must_ok", b.name), matches!(decode_ref(&aview), RefOut::Msg(m) if m.must_ok));
    }
    if fails == 0 {
        println!("selftest ok");
        0
    } else {
        1
    }
}
