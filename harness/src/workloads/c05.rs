//! C05 — in-order fragments reassemble to exactly the unfragmented message.
//! Oracle: byte equality of the concatenation, per-fragment field check, and the metamorphic
//! relation "fragmented == unfragmented" on the canonical decoded outcome.

use super::common::*;
use crate::gen;
use crate::json::J;
use crate::mon::{self, Call, Ctx, Parser, Report};
use crate::nmea_ref::{self, Build};
use crate::observe::Outcome;
use crate::rng::Rng;

const PID: &str = "C05";

type Log = Vec<(Vec<u8>, bool)>;

fn feed(p: &mut Parser, log: &mut Log, l: Vec<u8>, d: bool) -> Call {
    let c = p.parse(&l, d);
    log.push((l, d));
    c
}

/// leave the parser in one of the prior-history classes
fn prior(r: &mut Rng, p: &mut Parser, log: &mut Log, id: Option<u8>, n: u8) -> &'static str {
    match r.below(8) {
        0 => "fresh",
        1 => {
            // abandoned opener, decoding requested, announcing some other message type
            let mut pl = uniq_payload(7001);
            pl[0] = *r.pick(crate::armor::ALPHABET);
            let _ = feed(p, log, nmea_ref::mk(n.max(2), 1, id, &pl, 0), r.bool());
            "abandoned-same-id"
        }
        2 => {
            let other = Some(id.map_or(3, |x| x.wrapping_add(1) % 10));
            let _ = feed(p, log, nmea_ref::mk(3, 1, other, &uniq_payload(7002), 0), false);
            let _ = feed(p, log, nmea_ref::mk(3, 2, other, &uniq_payload(7003), 0), false);
            "abandoned-other-id"
        }
        3 => {
            let _ = feed(p, log, nmea_ref::mk(2, 1, id, &uniq_payload(7004), 0), false);
            let _ = feed(p, log, nmea_ref::mk(2, 2, id, &uniq_payload(7005), 0), false);
            "delivered-same-id"
        }
        4 => {
            // final fragment whose decoding fails
            let _ = feed(p, log, nmea_ref::mk(2, 1, id, b"zz", 0), true);
            let _ = feed(p, log, nmea_ref::mk(2, 2, id, b"zz", 0), true);
            "decode-failed-final"
        }
        5 => {
            let _ = feed(p, log, b"!AIVDM,1,1,,A,garbage".to_vec(), true);
            let _ = feed(p, log, nmea_ref::mk(4, 3, id, &uniq_payload(7006), 0), false);
            "rejected-lines"
        }
        6 => {
            for i in 0..r.usize(5, 40) {
                let b = random_build(r, 60);
                let _ = feed(p, log, b.line(), i % 2 == 0);
            }
            if log.len() > 60 {
                log.drain(0..log.len() - 60);
            }
            "random-traffic"
        }
        _ => {
            let _ = feed(p, log, nmea_ref::mk(1, 1, None, b"15RTgt0PAso;90TKcjM8h6g208CQ", 0), true);
            "after-unfragmented"
        }
    }
}

fn split_points(r: &mut Rng, len: usize, parts: usize) -> Vec<usize> {
    // parts-1 distinct cut positions in 1..len
    let mut cuts: Vec<usize> = Vec::new();
    while cuts.len() < parts - 1 {
        let c = r.usize(1, len - 1);
        if !cuts.contains(&c) {
            cuts.push(c);
        }
    }
    cuts.sort();
    cuts
}

struct Case<'a> {
    payload: &'a [u8],
    fill: u8,
    cuts: Vec<usize>,
    id: Option<u8>,
    idtext: String,
    decode: bool,
    interleave: bool,
    kind: &'a str,
    vary_decode: bool,
    /// re-draw the presentation of every fragment line independently (talker, VDM/VDO, delimiter,
    /// tag block, channel, leading zeros, checksum spelling, line ending, non-final fill count)
    dress: bool,
}

fn run_case(rep: &mut Report, r: &mut Rng, c: &Case) {
    let n = (c.cuts.len() + 1) as u8;
    // the group and its unfragmented twin run on parsers obtained the same way
    let _pin = mon::pin_ctor(r.below(2));
    let mut p = Parser::new();
    let mut log: Log = Vec::new();
    let mut pr = prior(r, &mut p, &mut log, c.id, n);
    // one case in ten: the same message was sent before under the same id in a finer fragmentation
    // and its tail was lost - what is buffered equals the new opener's payload, but two fragments
    // have been counted
    if r.chance(1, 10) && c.cuts[0] >= 2 && n < 250 {
        let cut = r.usize(1, c.cuts[0] - 1);
        for (k, part) in [(1u8, &c.payload[..cut]), (2u8, &c.payload[cut..c.cuts[0]])] {
            let mut b = Build::simple(n + 1, k, c.id, b"A", part, 0);
            b.id = c.idtext.clone();
            let _ = feed(&mut p, &mut log, b.line(), false);
        }
        pr = "abandoned-regrouped-same-id";
    }
    // twin: the same payload sent unfragmented on a fresh parser, same fill
    let mut twin = Parser::new();
    let twin_out = twin.parse(&nmea_ref::mk(1, 1, None, c.payload, c.fill), c.decode);
    let mut prev = 0usize;
    let mut group_lines: Vec<Vec<u8>> = Vec::new();
    let mut inter: Vec<&'static str> = Vec::new();
    let bounds: Vec<usize> = c.cuts.iter().cloned().chain(std::iter::once(c.payload.len())).collect();
    for (j, end) in bounds.iter().enumerate() {
        let k = (j + 1) as u8;
        let part = &c.payload[prev..*end];
        prev = *end;
        let fill = if k == n { c.fill } else { 0 };
        let chan = if j % 2 == 0 { b'A' } else { b'B' };
        let mut b = Build::simple(n, k, c.id, &[chan], part, fill);
        b.id = c.idtext.clone();
        let (chan, fill) = if c.dress { dress(r, &mut b, k < n) } else { (chan, fill) };
        let line = b.line();
        group_lines.push(line.clone());
        if c.interleave && j > 0 {
            for _ in 0..r.below(4) {
                let (l, d, cls) = inert_between(r, c.id, n, k);
                let _ = feed(&mut p, &mut log, l, d);
                inter.push(cls);
            }
            // no-allocator build: a would-be next fragment that does not fit the fixed buffer is a
            // rejected line like any other - the fragment that does fit must still continue the group
            let acc = *end - part.len();
            if mon::is_noalloc() && r.chance(1, 3) && acc < 384 {
                let extra = if r.bool() { 385 - acc } else { r.usize(385 - acc, 384) };
                let mut ob = Build::simple(n, k, c.id, b"A", &vec![b'w'; extra], 0);
                ob.id = c.idtext.clone();
                match feed(&mut p, &mut log, ob.line(), false) {
                    Call::Done(Outcome::Err(_)) => inter.push("over-capacity"),
                    // accepting it is C18's finding, and the group is no longer the one tested here
                    _ => {
                        rep.count("over-capacity-line-not-rejected");
                        return;
                    }
                }
            }
        }
        rep.eval();
        // the decode flag of a non-final fragment is irrelevant to the outcome of the group:
        // vary it (the final fragment decides with c.decode)
        let d = if k < n && c.vary_decode { r.bool() } else { c.decode };
        let out = feed(&mut p, &mut log, line, d);
        let o = match out {
            Call::Panic(pi) => {
                rep.violation(PID, format!("panic@{}", pi.loc), format!("panic '{}' at {} on fragment {}/{}", pi.msg, pi.loc, k, n), || mon::replay_history(&log, c.kind));
                return;
            }
            Call::Done(o) => o,
        };
        let bad = |rep: &mut Report, sig: &str, why: String| {
            rep.violation(PID, sig.to_string(), format!("{} (fragment {}/{}, id {:?}, prior {}, kind {})", why, k, n, c.id, pr, c.kind), || mon::replay_history(&log, c.kind));
        };
        if k < n {
            match &o {
                Outcome::Incomplete(s) => {
                    if s.data != part || s.n != n || s.k != k || s.id != c.id || s.fill != fill || s.channel != Some(chan as char) || s.message.is_some() {
                        bad(rep, "incomplete-wrong-fields", format!("Incomplete does not carry the fragment's own fields: {}", o.canon()));
                        return;
                    }
                }
                other => {
                    bad(rep, "non-final-not-incomplete", format!("non-final fragment returned {}", other.canon()));
                    return;
                }
            }
        } else {
            match &o {
                Outcome::Complete(s) => {
                    if s.data != c.payload {
                        bad(rep, "payload-not-concatenation", format!("Complete payload {:?} != concatenation {:?}", crate::json::esc_bytes(&s.data), crate::json::esc_bytes(c.payload)));
                        return;
                    }
                    if s.n != n || s.k != k || s.id != c.id || s.fill != c.fill {
                        bad(rep, "complete-wrong-fields", format!("Complete does not carry the last fragment's fields: {}", o.canon()));
                        return;
                    }
                    // metamorphic: decoded message equals the unfragmented decode
                    match &twin_out {
                        Call::Done(Outcome::Complete(t)) => {
                            if t.message_debug != s.message_debug || t.message != s.message {
                                bad(rep, "decoded-differs-from-unfragmented", format!("fragmented decode {:?} != unfragmented decode {:?}", s.message_debug, t.message_debug));
                                return;
                            }
                            if t.message_type != s.message_type && false {
                                // sentence-level type of a final fragment is C19's business
                            }
                        }
                        Call::Done(Outcome::Err(_)) if c.decode => {
                            bad(rep, "decoded-differs-from-unfragmented", "fragmented group decoded although the unfragmented twin was rejected".into());
                            return;
                        }
                        _ => {}
                    }
                }
                Outcome::Err(_) if c.decode && matches!(twin_out, Call::Done(Outcome::Err(_))) => {
                    // payload does not decode either way: consistent
                    rep.count("final-undecodable-consistent");
                }
                other => {
                    bad(rep, "final-not-complete", format!("final fragment returned {}", other.canon()));
                    return;
                }
            }
        }
    }
    // a second group right behind the first whose later lines are byte-for-byte the same lines
    // (a receiver log replays them; all-zero tails are common) but whose first fragment differs:
    // what is delivered and decoded is the second group, nothing remembered from the first
    if c.decode && c.cuts[0] >= 2 && r.chance(1, 3) {
        let mut p2: Vec<u8> = c.payload.to_vec();
        // change one character of the first fragment (not the type character)
        let i = r.usize(1, c.cuts[0] - 1);
        p2[i] = if p2[i] == b'w' { b'0' } else { b'w' };
        let mut b = Build::simple(n, 1, c.id, b"A", &p2[..c.cuts[0]], 0);
        b.id = c.idtext.clone();
        let mut twin2 = Parser::new();
        let twin2_out = twin2.parse(&nmea_ref::mk(1, 1, None, &p2, c.fill), true);
        let mut lines2 = vec![b.line()];
        lines2.extend(group_lines.iter().skip(1).cloned());
        let mut last = None;
        for (j, l) in lines2.iter().enumerate() {
            rep.eval();
            last = Some(feed(&mut p, &mut log, l.clone(), j + 1 == lines2.len()));
        }
        let what = "second group sharing its later lines with the first";
        match (last, twin2_out) {
            (Some(Call::Panic(pi)), _) => {
                rep.violation(PID, format!("panic@{}", pi.loc), format!("panic '{}' in the {}", pi.msg, what), || mon::replay_history(&log, c.kind));
                return;
            }
            (Some(Call::Done(Outcome::Complete(s))), Call::Done(Outcome::Complete(t))) => {
                if s.data != p2 {
                    rep.violation(PID, "payload-not-concatenation".into(), format!("{}: delivered payload is not its own concatenation", what), || mon::replay_history(&log, c.kind));
                    return;
                }
                if s.message != t.message || s.message_debug != t.message_debug {
                    rep.violation(PID, "decoded-differs-from-unfragmented".into(), format!("{}: decoded {:?}, the same payload unfragmented decodes to {:?}", what, s.message_debug, t.message_debug), || mon::replay_history(&log, c.kind));
                    return;
                }
            }
            (Some(Call::Done(Outcome::Err(_))), Call::Done(Outcome::Err(_))) => {}
            (Some(Call::Done(o)), Call::Done(t)) => {
                if o.is_ok() != t.is_ok() {
                    rep.violation(PID, "decoded-differs-from-unfragmented".into(), format!("{}: group returned {}, unfragmented twin {}", what, o.kind(), t.kind()), || mon::replay_history(&log, c.kind));
                    return;
                }
            }
            _ => {}
        }
        rep.count("second-groups-sharing-lines");
    }
    let idc = match c.id {
        None => "none",
        Some(x) if x < 10 => "digit",
        Some(_) => "multi",
    };
    inter.sort();
    inter.dedup();
    // (the interleaved kinds are recorded one by one: their combinations would give millions of classes)
    rep.class(format!("n={}|id={}|prior={}|decode={}|dressed={}|{}", n, idc, pr, c.decode as u8, c.dress as u8, c.kind));
    for k in &inter {
        rep.class(format!("interleaved={}|prior={}|n={}", k, pr, n));
    }
    rep.count("groups");
    rep.sample(4, || {
        let mut o = J::obj();
        o.set("kind", J::s(c.kind));
        o.set("prior_history", J::s(pr));
        o.set("lines", J::Arr(log.iter().rev().take(6).rev().map(|(l, _)| J::bytes(&l[..l.len().min(100)])).collect()));
        o.set("verdict", J::s("every non-final Incomplete with its own fields; final Complete == concatenation; decode == unfragmented twin"));
        o
    });
    rep.token(p.token());
}

/// conversions Option::from / Result::from on twin parsers fed the same history
fn conversions(rep: &mut Report, r: &mut Rng) {
    let plen = r.usize(2, 40);
    let payload = armor_chars(r, plen);
    let cut = r.usize(1, payload.len() - 1);
    let id = Some(r.below(10) as u8);
    let l1 = nmea_ref::mk(2, 1, id, &payload[..cut], 0);
    let l2 = nmea_ref::mk(2, 2, id, &payload[cut..], 0);
    let log: Log = vec![(l1.clone(), false), (l2.clone(), false)];
    for (which, line_idx) in [("incomplete", 0usize), ("complete", 1usize)] {
        let _pin = mon::pin_ctor(r.below(2));
        let mut pa = Parser::new();
        let mut pb = Parser::new();
        let mut pc = Parser::new();
        let (mut ra, mut rb, mut rc) = (None, None, None);
        for (i, l) in [&l1, &l2].iter().enumerate() {
            let a = pa.parse_raw(l, false);
            let b = pb.parse_raw(l, false);
            let c = pc.parse_raw(l, false);
            if i == line_idx {
                ra = Some(a);
                rb = Some(b);
                rc = Some(c);
            }
        }
        rep.eval();
        let (ra, rb, rc) = match (ra, rb, rc) {
            (Some(Ok(Ok(a))), Some(Ok(Ok(b))), Some(Ok(Ok(c)))) => (a, b, c),
            _ => {
                rep.violation(PID, "conversion-setup-rejected".into(), "in-order two-fragment group was not accepted".into(), || mon::replay_history(&log, "conversions"));
                return;
            }
        };
        let reference = crate::observe::outcome(&Ok(ra));
        let opt: Option<ais::sentence::AisSentence> = rb.into();
        let res: ais::Result<ais::sentence::AisSentence> = rc.into();
        let ok = match &reference {
            Outcome::Complete(s) => {
                opt.as_ref().map(crate::observe::sentence).as_ref() == Some(s)
                    && res.as_ref().ok().map(crate::observe::sentence).as_ref() == Some(s)
            }
            Outcome::Incomplete(_) => opt.is_none() && res.is_err(),
            _ => false,
        };
        rep.class(format!("conversion|{}", which));
        if !ok {
            rep.violation(PID, format!("conversion-{}", which), format!("Option/Result conversion of a {} result is wrong", which), || mon::replay_history(&log, "conversions"));
        }
    }
}

pub fn run(ctx: &Ctx, rep: &mut Report) {
    // injected delays: fragments of one group fed seconds apart (own threads, joined at the end)
    let pauses = start_pause_probes(ctx);
    let mut r = ctx.rng("c05");
    let ids: [(Option<u8>, &str); 8] = [(None, ""), (Some(0), "0"), (Some(5), "5"), (Some(9), "9"), (Some(10), "10"), (Some(99), "99"), (Some(255), "255"), (Some(7), "007")];
    // (1) all compositions of short payloads (every split of lengths 2..=9 into 2..=9 parts)
    let mut item = 0u64;
    for len in 2..=9usize {
        let payload: Vec<u8> = uniq_payload(len as u64).into_iter().cycle().take(len).collect();
        for mask in 1u32..(1 << (len - 1)) {
            let cuts: Vec<usize> = (1..len).filter(|i| mask >> (i - 1) & 1 == 1).collect();
            if cuts.len() + 1 > 9 {
                continue;
            }
            if !ctx.mine(item) {
                item += 1;
                continue;
            }
            item += 1;
            let (id, idtext) = ids[(mask as usize) % ids.len()];
            let c = Case { payload: &payload, fill: 0, cuts, id, idtext: idtext.into(), decode: false, interleave: mask % 3 == 0, kind: "compositions", vary_decode: mask % 5 == 0, dress: mask % 2 == 1 };
            run_case(rep, &mut r, &c);
        }
    }
    // (2) valid messages of every type, random splits, decode on: fragmented == unfragmented
    for i in 0..ctx.budget(60_000, 2_000_000) {
        let br = r.pick(gen::BRANCHES);
        let bits = gen::gen_message(br, &mut r);
        let (chars, fill) = bits.to_armor();
        if chars.len() < 2 {
            continue;
        }
        let parts = r.usize(2, 9.min(chars.len()));
        let (id, idtext) = *r.pick(&ids);
        let c = Case { payload: &chars, fill, cuts: split_points(&mut r, chars.len(), parts), id, idtext: idtext.into(), decode: i % 8 != 0, interleave: r.bool(), kind: br.name, vary_decode: i % 3 == 0, dress: i % 2 == 1 };
        run_case(rep, &mut r, &c);
    }
    // (3) repository vectors and random armored text / arbitrary non-comma bytes
    for i in 0..ctx.budget(30_000, 600_000) {
        let payload: Vec<u8> = match i % 3 {
            0 => r.pick(nmea_ref::PAYLOADS).to_vec(),
            1 => {
                let l = r.usize(2, 120);
                armor_chars(&mut r, l)
            }
            _ => (0..r.usize(2, 60)).map(|_| field_byte(&mut r)).collect(),
        };
        let parts = r.usize(2, 9.min(payload.len()));
        let (id, idtext) = *r.pick(&ids);
        let mut cuts = split_points(&mut r, payload.len(), parts);
        if i % 7 == 0 {
            // one-character final fragment
            cuts = vec![payload.len() - 1];
        }
        let c = Case { payload: &payload, fill: r.below(6) as u8, cuts, id, idtext: idtext.into(), decode: i % 3 == 0, interleave: r.bool(), kind: "text", vary_decode: i % 4 == 0, dress: i % 2 == 1 };
        run_case(rep, &mut r, &c);
    }
    // (4) long groups up to the no-allocator capacity (total <= 384 here; beyond is C18's)
    for _ in 0..ctx.budget(300, 20_000) {
        let total = r.usize(300, 384);
        let payload = armor_chars(&mut r, total);
        let parts = r.usize(2, 9);
        let (id, idtext) = *r.pick(&ids);
        let c = Case { payload: &payload, fill: 0, cuts: split_points(&mut r, total, parts), id, idtext: idtext.into(), decode: false, interleave: r.bool(), kind: "long", vary_decode: false, dress: r.bool() };
        run_case(rep, &mut r, &c);
    }
    // (5) std / alloc: groups whose total passes 2^16, 255 x 384, 2^17 and 2^18 bytes
    if !mon::is_noalloc() {
        let mut item = 0u64;
        for total in [65_535usize, 65_536, 65_537, 97_919, 97_920, 97_921, 98_305, 131_071, 131_072, 131_073, 262_145] {
            for parts in [2usize, 3, 5, 9] {
                if !ctx.mine(item) {
                    item += 1;
                    continue;
                }
                item += 1;
                for rep_i in 0..if ctx.thorough() { 8 } else { 2 } {
                    let payload = armor_chars(&mut r, total);
                    let (id, idtext) = *r.pick(&ids);
                    // random cuts, and (second repetition) one huge first fragment followed by small ones
                    let cuts = if rep_i % 2 == 0 { split_points(&mut r, total, parts) } else { (0..parts - 1).map(|j| total - (parts - 1 - j) * 7).collect() };
                    let c = Case { payload: &payload, fill: 0, cuts, id, idtext: idtext.into(), decode: false, interleave: r.bool(), kind: "jumbo", vary_decode: false, dress: r.bool() };
                    run_case(rep, &mut r, &c);
                }
            }
        }
    }
    for _ in 0..ctx.budget(300, 20_000) {
        conversions(rep, &mut r);
    }
    rep.require("groups");
    finish_pause_probes(rep, PID, pauses);
    rep.sample(3, || {
        let mut o = J::obj();
        o.set("history", J::Arr(vec![J::bytes(&nmea_ref::mk(3, 1, Some(4), b"55P5TL01VIaAL@7WKO@mBplU@<PDhh", 0)), J::bytes(&nmea_ref::mk(1, 1, None, b"zzzz", 0)), J::bytes(&nmea_ref::mk(3, 2, Some(4), b"000000001S;AJ::4A8", 0)), J::bytes(&nmea_ref::mk(3, 3, Some(4), b"0?4i@E53", 2))]));
        o.set("expected", J::s("Incomplete, (inert), Incomplete, Complete(payload = concatenation; decode == unfragmented decode)"));
        o
    });
}
