//! C07 — the sentence reports exactly the transmitted NMEA fields and raw payload.
//! Oracle: `nmea_ref::scan` field extraction + the talker / report tables + twin parsers
//! for the decode flag.

use super::common::*;
use crate::json::J;
use crate::mon::{self, Call, Ctx, Parser, Report};
use crate::nmea_ref::{self, Build, Scan};
use crate::observe::{ObsSentence, Outcome};
use crate::rng::Rng;

const PID: &str = "C07";

fn strip_msg(s: &ObsSentence) -> ObsSentence {
    let mut t = s.clone();
    t.message = None;
    t.message_debug = None;
    t
}

/// Feed `b` (made sequencing-neutral by priming) with decode off and on, on twin parsers.
fn check(rep: &mut Report, b: &Build, cls: &str) {
    let line = b.line();
    let f = match nmea_ref::scan(&line) {
        Scan::Accept(f) => f,
        Scan::DontCare(_) => {
            rep.count("dont_care");
            return;
        }
        Scan::Reject(why) => {
            rep.count("generator_produced_reject");
            let _ = why;
            return;
        }
    };
    if f.tx != f.body_xor {
        return;
    }
    if mon::is_noalloc() && f.payload.len() > 384 {
        rep.count("noalloc_over_capacity");
        return;
    }
    let mut outs: Vec<Outcome> = Vec::new();
    let mut logs = Vec::new();
    let mut afters: Vec<(Vec<String>, Vec<(Vec<u8>, bool)>)> = Vec::new();
    // the two runs that are compared use parsers obtained the same way (alternating per call)
    static CT: std::sync::atomic::AtomicU64 = std::sync::atomic::AtomicU64::new(0);
    let _pin = mon::pin_ctor(CT.fetch_add(1, std::sync::atomic::Ordering::Relaxed) / 2);
    // both twins get the same kind of prior history (one draw per call)
    static ROT: std::sync::atomic::AtomicUsize = std::sync::atomic::AtomicUsize::new(0);
    let rot = ROT.fetch_add(1, std::sync::atomic::Ordering::Relaxed);
    for decode in [false, true] {
        let mut p = Parser::new();
        let mut log = Vec::new();
        // prior history must not matter: a quarter of the cases start after an abandoned group
        // or a delivered one
        // the kind of prior history rotates per (call, decode flag), so that every class of line
        // meets every kind of history
        match rot % 8 {
            0 => {
                let l = nmea_ref::mk(3, 1, Some(77), &uniq_payload(901), 0);
                let _ = p.parse(&l, false);
                log.push((l, false));
            }
            1 => {
                for k in 1..=2u8 {
                    let l = nmea_ref::mk(2, k, f.id, &uniq_payload(902 + k as u64), 0);
                    let _ = p.parse(&l, false);
                    log.push((l, false));
                }
            }
            2 => {
                // a group whose delivery fails in decoding (decoding requested)
                for k in 1..=2u8 {
                    let l = nmea_ref::mk(2, k, f.id, b"zz00", 0);
                    let _ = p.parse(&l, true);
                    log.push((l, true));
                }
            }
            3 => {
                // an abandoned first attempt under the same id whose opener carried *more* than the
                // opener that follows (the message is re-sent in a finer fragmentation): the
                // payload of the new opener is a strict prefix of what is buffered
                let mut pl = uniq_payload(1001);
                pl.extend_from_slice(b"0w0w");
                let l = nmea_ref::mk(f.n.max(2), 1, f.id, &pl, 0);
                let _ = p.parse(&l, false);
                log.push((l, false));
            }
            4 => {
                // ... and the coarser one: the abandoned opener carried a strict prefix
                let pl = uniq_payload(1001);
                let l = nmea_ref::mk(f.n.max(2), 1, f.id, &pl[..pl.len() - 2], 0);
                let _ = p.parse(&l, false);
                log.push((l, false));
            }
            _ => {}
        }
        let acc = prime(&mut p, f.n, f.k, f.id, &mut log);
        if mon::is_noalloc() && acc.len() + f.payload.len() > 384 {
            rep.count("noalloc_over_capacity");
            return;
        }
        rep.eval();
        let c = p.parse(&line, decode);
        log.push((line.clone(), decode));
        // "requesting decoding changes nothing but the decoded message": the state the parser is
        // left in is observed through three follow-up lines (decoding off) on both twins - the
        // next fragment number under the same id, the accepted odd line "1 of 0", a plain line
        let mut after: Vec<String> = Vec::new();
        if !matches!(c, Call::Panic(_)) {
            let mut probes: Vec<Vec<u8>> = Vec::new();
            if f.k < 255 {
                probes.push(nmea_ref::mk(f.n.max(f.k + 1), f.k + 1, f.id, &uniq_payload(7001), 0));
            }
            probes.push(nmea_ref::mk(0, 1, None, &uniq_payload(7002), 0));
            probes.push(nmea_ref::mk(1, 1, None, DECODABLE, 0));
            for pl in probes {
                let pc = p.parse(&pl, false);
                log.push((pl, false));
                after.push(match pc {
                    Call::Panic(pi) => format!("panic@{}", pi.loc),
                    Call::Done(o) => o.canon(),
                });
            }
        }
        afters.push((after, log.clone()));
        let o = match c {
            Call::Panic(pi) => {
                rep.violation(PID, format!("panic@{}", pi.loc), format!("panic '{}' at {}", pi.msg, pi.loc), || mon::replay_history(&log, cls));
                return;
            }
            Call::Done(o) => o,
        };
        let in_domain = f.n >= 1 && f.k >= 1 && f.k <= f.n;
        let s = match &o {
            Outcome::Complete(s) | Outcome::Incomplete(s) => s.clone(),
            Outcome::Err(_) => {
                if decode || !in_domain {
                    // with decoding on a payload-level error is legitimate; outside the
                    // numbering domain acceptance is not required
                    rep.count(if decode { "decode_on_err" } else { "out_of_domain_err" });
                } else {
                    rep.violation(
                        PID,
                        "decode-off-error".into(),
                        format!("well-formed, sequencing-neutral line rejected with decoding off (payload-level errors must not be raised): {}", crate::json::esc_bytes(&line)),
                        || mon::replay_history(&log, cls),
                    );
                }
                outs.push(o.clone());
                logs.push(log);
                continue;
            }
        };
        // field-by-field
        let mut exp_data = acc.clone();
        let is_final_of_group = f.n >= 2 && f.k == f.n;
        if !is_final_of_group {
            exp_data.clear();
        }
        exp_data.extend_from_slice(&f.payload);
        let exp_chan = f.chan.first().map(|b| char::from(*b));
        let mut wrong: Vec<String> = Vec::new();
        if s.talker != talker_ref(f.talker) {
            wrong.push(format!("talker {:?} for {:?}", s.talker, crate::json::esc_bytes(&f.talker)));
        }
        if s.report != report_ref(f.formatter) {
            wrong.push(format!("report {:?} for {:?}", s.report, crate::json::esc_bytes(&f.formatter)));
        }
        if s.n != f.n {
            wrong.push(format!("num_fragments {} for {}", s.n, f.n));
        }
        if s.k != f.k {
            wrong.push(format!("fragment_number {} for {}", s.k, f.k));
        }
        if s.id != f.id {
            wrong.push(format!("message_id {:?} for {:?}", s.id, f.id));
        }
        if s.channel != exp_chan {
            wrong.push(format!("channel {:?} for field {:?}", s.channel, crate::json::esc_bytes(&f.chan)));
        }
        if s.fill != f.fill {
            wrong.push(format!("fill_bit_count {} for {}", s.fill, f.fill));
        }
        // outside 1 <= k <= n nothing was primed: whatever is accepted reports its own bytes
        if s.data != exp_data {
            wrong.push(format!("payload {:?} for {:?}", crate::json::esc_bytes(&s.data), crate::json::esc_bytes(&exp_data)));
        }
        if in_domain && s.has_more != (f.k < f.n) {
            wrong.push("has_more".into());
        }
        if s.is_fragment != (f.n != 1) {
            wrong.push("is_fragment".into());
        }
        if !decode && s.message.is_some() {
            wrong.push("message present with decoding off".into());
        }
        if decode && matches!(o, Outcome::Complete(_)) && s.message.is_none() {
            wrong.push("message absent with decoding on".into());
        }
        if !wrong.is_empty() {
            let key = wrong[0].split(' ').next().unwrap_or("field").to_string();
            rep.violation(PID, format!("field:{}", key), format!("{} in {}", wrong.join("; "), crate::json::esc_bytes(&line)), || mon::replay_history(&log, cls));
            return;
        }
        outs.push(o.clone());
        logs.push(log);
    }
    if afters.len() == 2 && afters[0].0 != afters[1].0 {
        let i = (0..afters[0].0.len().min(afters[1].0.len())).find(|i| afters[0].0[*i] != afters[1].0[*i]).unwrap_or(0);
        rep.violation(
            PID,
            "decode-flag-changes-later-lines".into(),
            format!(
                "after {} the follow-up line #{} is reported as {} when decoding was off and as {} when it was on",
                crate::json::esc_bytes(&line[..line.len().min(120)]),
                i + 1,
                afters[0].0.get(i).map(|s| s.chars().take(160).collect::<String>()).unwrap_or_default(),
                afters[1].0.get(i).map(|s| s.chars().take(160).collect::<String>()).unwrap_or_default()
            ),
            || mon::replay_history(&afters[1].1, cls),
        );
        return;
    }
    rep.count("follow_up_states_compared");
    // decode flag changes nothing but the message
    if let (Some(a), Some(b2)) = (outs.get(0), outs.get(1)) {
        match (a, b2) {
            (Outcome::Complete(x), Outcome::Complete(y)) | (Outcome::Incomplete(x), Outcome::Incomplete(y)) => {
                if strip_msg(x) != strip_msg(y) {
                    rep.violation(PID, "decode-flag-changes-sentence".into(), format!("sentence fields differ between decode off and on: {} vs {}", a.canon(), b2.canon()), || mon::replay_history(&logs[1], cls));
                }
            }
            (Outcome::Complete(_), Outcome::Incomplete(_)) | (Outcome::Incomplete(_), Outcome::Complete(_)) => {
                rep.violation(PID, "decode-flag-changes-kind".into(), format!("{} vs {}", a.canon(), b2.canon()), || mon::replay_history(&logs[1], cls));
            }
            _ => {}
        }
    }
    rep.sample(5, || {
        let mut o = J::obj();
        o.set("class", J::s(cls));
        o.set("line", J::bytes(&line[..line.len().min(140)]));
        o.set("reference", J::s(&format!("talker {} report {} {}/{} id {:?} channel {:?} fill {}", talker_ref(f.talker), report_ref(f.formatter), f.k, f.n, f.id, f.chan.first().map(|b| char::from(*b)), f.fill)));
        o.set("observed_decode_off", J::s(&outs.get(0).map(|o| o.canon()).unwrap_or_default().chars().take(100).collect::<String>()));
        o
    });
    rep.class(cls.to_string());
    rep.count("accepted_lines_checked");
}

const DECODABLE: &[u8] = b"15RTgt0PAso;90TKcjM8h6g208CQ";

pub fn run(ctx: &Ctx, rep: &mut Report) {
    // injected delays: fragments of one group fed seconds apart (own threads, joined at the end)
    let pauses = start_pause_probes(ctx);
    let mut r = ctx.rng("c07");
    let mut item = 0u64;
    // talkers: all 65 536 byte pairs x {VDM, VDO, other}
    for a in 0..=255u8 {
        if !ctx.mine(item) {
            item += 1;
            continue;
        }
        item += 1;
        for b2 in 0..=255u8 {
            if a == b',' || b2 == b',' || a == b'*' || b2 == b'*' {
                continue;
            }
            let mut b = Build::simple(1, 1, None, b"A", DECODABLE, 0);
            b.talker = [a, b2];
            b.formatter = match (a as usize + b2 as usize) % 4 {
                0 => *b"VDO",
                1 => *b"VDX",
                _ => *b"VDM",
            };
            let known = talker_ref(b.talker) != "Unknown";
            check(rep, &b, if known { "talker-known" } else { "talker-unknown" });
        }
    }
    // every known talker explicitly with every report type
    for t in TALKERS.iter().map(|t| **t) {
        for f in [b"VDM", b"VDO", b"VDm", b"ADM", b"VD\x00", b"vdm"] {
            let mut b = Build::simple(1, 1, None, b"B", DECODABLE, 0);
            b.talker = t;
            b.formatter = *f;
            check(rep, &b, "talker-x-formatter");
        }
    }
    // formatters: all 256^3 in thorough, a slice in quick
    let fbudget = if ctx.thorough() { 256u32 } else { 4 };
    for x in 0..fbudget {
        if !ctx.mine(item) {
            item += 1;
            continue;
        }
        item += 1;
        let x = if ctx.thorough() { x as u8 } else { [b'V', b'A', 0xff, b'v'][x as usize] };
        for y in 0..=255u8 {
            for z in 0..=255u8 {
                if [x, y, z].iter().any(|c| *c == b',' || *c == b'*') {
                    continue;
                }
                if !ctx.thorough() && z % 16 != y % 16 && !(y == b'D' && (z == b'M' || z == b'O')) {
                    continue;
                }
                let mut b = Build::simple(1, 1, None, b"A", b"15", 0);
                b.formatter = [x, y, z];
                check(rep, &b, "formatter");
            }
        }
    }
    // counts, numbers, ids 0..=255 with 0-3 leading zeros
    for v in 0..=255u32 {
        if !ctx.mine(item) {
            item += 1;
            continue;
        }
        item += 1;
        for zeros in 0..4 {
            let z = "0".repeat(zeros);
            // count = v (k = 1, or v itself via priming when small)
            let mut b = Build::simple(1, 1, None, b"A", DECODABLE, 0);
            b.n = format!("{}{}", z, v);
            b.k = "1".into();
            check(rep, &b, "count");
            if v >= 1 {
                let mut b = Build::simple(1, 1, Some(3), b"A", &uniq_payload(v as u64), 0);
                b.n = format!("{}{}", z, v.max(1));
                b.k = format!("{}{}", z, v);
                if v <= 12 || zeros == 0 {
                    check(rep, &b, "number-primed");
                }
                let mut b = Build::simple(255, v as u8, Some(3), b"A", &uniq_payload(v as u64), 0);
                b.k = format!("{}{}", z, v);
                if v <= 12 || (zeros == 1 && v % 16 == 0) {
                    check(rep, &b, "number-of-255");
                }
            }
            let mut b = Build::simple(2, 1, None, b"A", DECODABLE, 0);
            b.id = format!("{}{}", z, v);
            check(rep, &b, "id");
            let mut b = Build::simple(1, 1, None, b"A", DECODABLE, 0);
            b.id = format!("{}{}", z, v);
            check(rep, &b, "id-unfragmented");
        }
    }
    // channel: empty, every single byte, multi-byte
    for c in 0..=255u8 {
        if c == b',' || c == b'*' {
            continue;
        }
        if !ctx.mine(item) {
            item += 1;
            continue;
        }
        item += 1;
        let b = Build::simple(1, 1, None, &[c], DECODABLE, 0);
        check(rep, &b, if c < 0x80 { "channel-ascii" } else { "channel-high" });
        let b = Build::simple(1, 1, None, &[c, b'x', c], DECODABLE, 0);
        check(rep, &b, "channel-multi");
        // payload edge bytes at first / middle / last position
        for pos in 0..3 {
            let mut pl = DECODABLE.to_vec();
            let i = [0, pl.len() / 2, pl.len() - 1][pos];
            pl[i] = c;
            let b = Build::simple(1, 1, None, b"A", &pl, 0);
            check(rep, &b, ["payload-first", "payload-middle", "payload-last"][pos]);
            let b = Build::simple(2, 1, Some(1), b"A", &pl, 0);
            check(rep, &b, "payload-byte-opener");
        }
        let b = Build::simple(1, 1, None, b"A", &[c], 0);
        check(rep, &b, "payload-single-byte");
    }
    check(rep, &Build::simple(1, 1, None, b"", DECODABLE, 0), "channel-empty");
    // channel fields a receiver or shore station might plausibly write instead of the NMEA letter:
    // ITU-R M.1084 designators of AIS 1 / AIS 2 (87B / 88B, 2087 / 2088), frequencies, names,
    // lower case, and all two-character combinations of the usual designators
    if ctx.mine(item) {
        let named: [&[u8]; 26] = [
            b"87B", b"88B", b"2087", b"2088", b"87", b"88", b"1087", b"1088", b"87A", b"88A", b"AIS1", b"AIS2", b"AIS 1", b"AIS 2", b"161.975", b"162.025", b"161975000", b"162025000",
            b"a", b"b", b"C", b"D", b"AB", b"BA", b"12", b"21",
        ];
        for ch in named.iter() {
            for (n, k, id) in [(1u8, 1u8, None), (2, 1, Some(1u8)), (2, 2, Some(1))] {
                let b = Build::simple(n, k, id, ch, DECODABLE, 0);
                check(rep, &b, "channel-named");
            }
        }
        for a in b"AB12ab".iter() {
            for c in b"AB12ab".iter() {
                check(rep, &Build::simple(1, 1, None, &[*a, *c], DECODABLE, 0), "channel-pair");
            }
        }
    }
    item += 1;
    // payload lengths 1..=400, fill 0..=5 incl. "05", tag block, '$'
    for len in 1..=400usize {
        if !ctx.mine(item) {
            item += 1;
            continue;
        }
        item += 1;
        let mut b = Build::simple(1, 1, None, b"A", &armor_chars(&mut r, len), (len % 6) as u8);
        if len % 7 == 0 {
            b.fill = format!("0{}", len % 6);
        }
        if len % 3 == 0 {
            b.tag = Some(b"s:2573345,c:1696241893*00".to_vec());
        }
        if len % 4 == 0 {
            b.delim = b'$';
        }
        check(rep, &b, "payload-length");
        let mut b2 = Build::simple(3, 3, Some(2), b"B", &payload_bytes(&mut r, len), (len % 6) as u8);
        b2.delim = if len % 2 == 0 { b'$' } else { b'!' };
        check(rep, &b2, "payload-length-final");
    }
    // decodability classes
    for (pl, cls) in [
        (&b"15RTgt0PAso;90TKcjM8h6g208CQ"[..], "decodable"),
        (&b"15RT~t0P"[..], "invalid-armoring"),
        (&b"F5RTgt0PAso;90TKcjM8h6g208CQ"[..], "unsupported-type"),
        (&b"15R"[..], "too-short"),
    ] {
        for (n, k) in [(1u8, 1u8), (2, 1), (2, 2)] {
            let b = Build::simple(n, k, Some(4), b"A", pl, 0);
            check(rep, &b, cls);
        }
    }
    // random well-formed sentences
    for _ in 0..ctx.budget(400_000, 4_000_000) {
        let mut b = random_build(&mut r, 390);
        // keep numbering inside the domain and primable
        let n: u8 = b.n.parse::<u32>().unwrap_or(1).min(255) as u8;
        let k: u8 = b.k.parse::<u32>().unwrap_or(1).min(255) as u8;
        if !(n >= 1 && k >= 1 && k <= n) || k > 12 {
            b.n = "1".into();
            b.k = "1".into();
        }
        check(rep, &b, "random");
    }
    rep.require("accepted_lines_checked");
    rep.require("follow_up_states_compared");
    // the accepted odd line "fragment 1 of 0" (no id) after a delivered group of 70 KB, 1.1 MB and
    // 17 MB (std / alloc): it reports its own payload, nothing of the group
    if !mon::is_noalloc() {
        for (gi, size) in [70_000usize, 1_100_000, 17_000_000].iter().enumerate() {
            if !ctx.mine(item + gi as u64) {
                continue;
            }
            let mut p = Parser::new();
            let big: Vec<u8> = std::iter::repeat(b'w').take(*size).collect();
            let own = uniq_payload(4242);
            let _ = p.parse(&nmea_ref::mk(2, 1, Some(3), &big, 0), false);
            let _ = p.parse(&nmea_ref::mk(2, 2, Some(3), b"TAIL;0", 0), false);
            let line = nmea_ref::mk(0, 1, None, &own, 0);
            rep.eval();
            rep.class(format!("one-of-zero-after-delivered-group|{}", size));
            let hist = vec![(format!("... group of two fragments (id 3), {} + 6 payload characters, delivered ...", size).into_bytes(), false), (line.clone(), false)];
            match p.parse(&line, false) {
                mon::Call::Panic(pi) => rep.violation(PID, format!("panic@{}", pi.loc), pi.msg.clone(), || mon::replay_history(&hist, "one-of-zero-after-big-group")),
                mon::Call::Done(Outcome::Complete(sn)) | mon::Call::Done(Outcome::Incomplete(sn)) => {
                    if sn.data != own {
                        rep.violation(PID, "payload-not-own".into(), format!("'1 of 0' line after a delivered group of {} characters reports {} payload bytes starting {:?}, its own payload has {}", size + 6, sn.data.len(), crate::json::esc_bytes(&sn.data[..sn.data.len().min(12)]), own.len()), || mon::replay_history(&hist, "one-of-zero-after-big-group"));
                    }
                }
                _ => {}
            }
        }
    }
    item += 3;
    finish_pause_probes(rep, PID, pauses);
    rep.sample(3, || {
        let mut b = Build::simple(3, 3, Some(7), b"\xe9", b"any;bytes{}", 5);
        b.talker = *b"BS";
        b.formatter = *b"VDO";
        b.fill = "05".into();
        let mut o = J::obj();
        o.set("line", J::bytes(&b.line()));
        o.set("expected", J::s("talker BS, VDO, 3/3 id 7, channel U+00E9, fill 5, payload = primed prefix + own bytes"));
        o
    });
}
