//! C20 — oracle side of the command-line monitor: the library itself as the per-line
//! reference. `aismon lines` reads a byte stream on stdin, splits it on '\n' exactly like
//! `BufRead::split`, feeds every line to one parser with decoding on and prints one record
//! per line: `C\t<Debug of Option<AisMessage>>`, `I` or `E`. `checks/cli_monitor.py` compares
//! the real tool's stdout / stderr records with this.

use std::io::{Read, Write};

pub fn lines_oracle() {
    let mut data = Vec::new();
    std::io::stdin().read_to_end(&mut data).expect("read stdin");
    let mut lines: Vec<&[u8]> = data.split(|b| *b == b'\n').collect();
    if data.is_empty() || data.last() == Some(&b'\n') {
        lines.pop(); // BufRead::split yields no empty final segment
    }
    let out = std::io::stdout();
    let mut out = std::io::BufWriter::new(out.lock());
    let mut p = ais::AisParser::new();
    for l in lines {
        match crate::mon::guard(|| p.parse(l, true)) {
            Ok(Ok(ais::AisFragments::Complete(s))) => {
                let _ = writeln!(out, "C\t{:?}", s.message);
            }
            Ok(Ok(ais::AisFragments::Incomplete(_))) => {
                let _ = writeln!(out, "I");
            }
            Ok(Err(_)) => {
                let _ = writeln!(out, "E");
            }
            Err(pi) => {
                let _ = writeln!(out, "P\t{}", pi.loc);
                p = ais::AisParser::new();
            }
        }
    }
    let _ = out.flush();
}
