//! C16 — communication state is decoded per SOTDMA/ITDMA rules for each type.
//! Oracle: 20-line model in `decode_ref` (sotdma_ref / itdma_ref). Exhaustive over all 2^19
//! states (2^20 with selector) for each of types 1, 2, 3, 4, 9, 11, 18.

use crate::bits::Bits;
use crate::decode_ref::{itdma_ref, sotdma_ref};
use crate::json::J;
use crate::mon::{self, Ctx, Report};
use crate::val::Comm;

const PID: &str = "C16";

/// signature names of the known-finding classifiers (see known_findings.txt)
pub const KF_TYPE9: &str = "KF:type9-commstate-one-bit-early";

fn put_bits(buf: &mut [u8], start: usize, width: usize, val: u64) {
    for i in 0..width {
        let bit = (val >> (width - 1 - i)) & 1;
        let pos = start + i;
        let mask = 0x80u8 >> (pos % 8);
        if bit == 1 {
            buf[pos / 8] |= mask;
        } else {
            buf[pos / 8] &= !mask;
        }
    }
}

fn kind_class(c: &Comm) -> String {
    match c {
        Comm::Sotdma { timeout, .. } => format!("sotdma-timeout{}", timeout),
        Comm::Itdma { .. } => "itdma".into(),
    }
}

#[derive(Default)]
struct Tally {
    agree: u64,
    disagree: u64,
    known: u64,
}

/// decode `base` (state already written) and compare with the reference model
fn judge_state(rep: &mut Report, t: u8, has_selector: bool, base: &[u8], state: u64, n: u64, c: &mut Tally) {
    let base = base.to_vec();
        rep.eval();
        let bits = Bits::from_bytes(&base);
        let want: Vec<Comm> = match t {
            3 => itdma_ref(&bits, 149),
            9 | 18 => {
                if bits.uint(148, 1) == 1 {
                    itdma_ref(&bits, 149)
                } else {
                    sotdma_ref(&bits, 149)
                }
            }
            _ => sotdma_ref(&bits, 149),
        };
        if n % 512 == 1 {
            rep.class(format!("t{}|sel={}|{}", t, if has_selector { bits.uint(148, 1) as i64 } else { -1 }, kind_class(&want[0])));
        }
        let got = match mon::call_radio(&base) {
            Err(pi) => {
                let buf = base.clone();
                rep.violation(PID, format!("panic@{}", pi.loc), format!("type {} state {:#x}: panic '{}'", t, state, pi.msg), || mon::replay_message(&buf, "commstate"));
                return;
            }
            Ok(Some(Some(c))) => c,
            Ok(_) => {
                let buf = base.clone();
                rep.violation(PID, format!("t{}:rejected", t), format!("type {} with communication state {:#x} was rejected", t, state), || mon::replay_message(&buf, "commstate"));
                return;
            }
        };
        if n % 100_000 == 11 {
            rep.sample(6, || {
                let mut o = J::obj();
                o.set("type", J::i(t as u64));
                o.set("bits_148_167", J::s(&format!("{:#07x}", bits.uint(148, 20))));
                o.set("reference", J::s(&format!("{:?}", want)));
                o.set("observed", J::s(&format!("{:?}", got)));
                o
            });
        }
        if want.iter().any(|w| *w == got) {
            c.agree += 1;
            return;
        }
        c.disagree += 1;
        // known-finding classifier: type 9 and the observed value is exactly the
        // SOTDMA decode of bits 148..166 of this very payload (one bit early)
        let sig = if t == 9 && sotdma_ref(&bits, 148).iter().any(|w| *w == got) {
            c.known += 1;
            KF_TYPE9.to_string()
        } else {
            format!("t{}:radio_status", t)
        };
        let buf = base.clone();
        rep.violation(
            PID,
            sig,
            format!("type {} bits 148..167 = {:#x}: expected {:?}, observed {:?}", t, bits.uint(148, 20), want, got),
            || mon::replay_message(&buf, "commstate"),
        );
}

pub fn run(ctx: &Ctx, rep: &mut Report) {
    let mut r = ctx.rng("c16");
    let contexts = if ctx.thorough() { 16 } else { 2 };
    for &t in &[1u8, 2, 3, 4, 9, 11, 18] {
        let has_selector = t == 9 || t == 18;
        let (start, width) = if has_selector { (148usize, 20usize) } else { (149usize, 19usize) };
        let total = 1u64 << width;
        let mut base = vec![0u8; 21];
        let mut tally = Tally::default();
        let mut n = 0u64;
        // the "station without a position fix" context: every optional value of the message at its
        // 'not available' code, every other field at one of its notable values (time stamp 60..63,
        // navigation status 15, hour 24, extremes ...) chosen by a hash of the state - what a unit
        // with no GNSS reception transmits, and the combination a decoder is most likely to treat
        // specially. Each state of the exhaustive sweep is decoded once in this context as well.
        let nofix: Vec<(usize, usize, Vec<u64>)> = {
            let b = crate::gen::BRANCHES.iter().find(|b| b.t == t && b.len == 168).expect("168-bit layout");
            super::c04::fields_of(b, &mut r, None)
                .iter()
                .filter(|f| f.start >= 6 && (f.start + f.width) as usize <= start && f.width <= 40)
                .map(|f| {
                    let w = f.width as usize;
                    let vals = match super::c11::sentinel_of(f.key, w) {
                        Some(sv) => vec![sv],
                        None if matches!(f.key, "timestamp" | "utc_second") => vec![60, 61, 62, 63],
                        None => super::c04::notable_values(f.key, w),
                    };
                    (f.start as usize, w, vals)
                })
                .filter(|(_, _, v)| !v.is_empty())
                .collect()
        };
        rep.count_n(&format!("t{}:no-fix-context-fields", t), nofix.len() as u64);
        for state in 0..total {
            // contiguous blocks of 1024 states per shard
            if (state / 1024) % ctx.nshards != ctx.shard {
                continue;
            }
            {
                let mut h = (state ^ ((t as u64) << 32)).wrapping_mul(0x9E37_79B9_7F4A_7C15);
                let mut nf = vec![0u8; 21];
                nf[0] = t << 2;
                for (fs, fw, vals) in &nofix {
                    h ^= h >> 29;
                    h = h.wrapping_mul(0xBF58_476D_1CE4_E5B9);
                    put_bits(&mut nf, *fs, *fw, vals[((h >> 33) % vals.len() as u64) as usize]);
                }
                n += 1;
                put_bits(&mut nf, start, width, state);
                if n % 512 == 3 {
                    rep.class(format!("t{}|no-fix-context", t));
                }
                judge_state(rep, t, has_selector, &nf, state, n, &mut tally);
            }
            for cx in 0..contexts {
                if cx % 2 == 1 {
                    // complement every bit outside the type and the state: together with the
                    // previous context each of them has taken both values for this state
                    for (i, byte) in base.iter_mut().enumerate() {
                        *byte = if i == 0 { (t << 2) | (!*byte & 3) } else { !*byte };
                    }
                } else if n % 64 == 0 || cx > 0 || base[0] >> 2 != t {
                    base = r.bytes(21);
                    base[0] = (t << 2) | (base[0] & 3);
                }
                n += 1;
                put_bits(&mut base, start, width, state);
                judge_state(rep, t, has_selector, &base, state, n, &mut tally);
            }
        }
        // notable states (all zero / all one, one or two bits set or cleared, every sync state x
        // time-out x sub-message corner, every ITDMA corner, and the fixed value ITU-R M.1371
        // prescribes for Class B "CS" units, 0x60006) in many random contexts each: whatever
        // else the message says, the state decodes by the same rule
        let mut notable: Vec<u64> = vec![0, (1 << 19) - 1, 0x60006, 0x20006, 0x40006];
        for i in 0..19u64 {
            notable.push(1 << i);
            notable.push(((1 << 19) - 1) ^ (1 << i));
            for j in (i + 1)..19 {
                notable.push((1 << i) | (1 << j));
            }
        }
        for sync in 0..4u64 {
            for to in 0..8u64 {
                for sub in [0u64, 1, 0x3fff] {
                    notable.push(sync << 17 | to << 14 | sub);
                }
            }
            for inc in [0u64, 1, 0x1fff] {
                for slots in 0..8u64 {
                    for keep in 0..2u64 {
                        notable.push(sync << 17 | inc << 4 | slots << 1 | keep);
                    }
                }
            }
        }
        notable.sort();
        notable.dedup();
        let nctx = if ctx.thorough() { 1024 } else { 96 };
        for (ni, &st19) in notable.iter().enumerate() {
            if (ni as u64) % ctx.nshards != ctx.shard {
                continue;
            }
            for sel in 0..(if has_selector { 2u64 } else { 1 }) {
                let state = if has_selector { sel << 19 | st19 } else { st19 };
                for _ in 0..nctx {
                    let mut base = r.bytes(21);
                    base[0] = (t << 2) | (base[0] & 3);
                    put_bits(&mut base, start, width, state);
                    n += 1;
                    if n % 512 == 1 {
                        rep.class(format!("t{}|notable-state|sel={}", t, if has_selector { sel as i64 } else { -1 }));
                    }
                    judge_state(rep, t, has_selector, &base, state, n, &mut tally);
                }
            }
        }
        let (agree, disagree, known) = (tally.agree, tally.disagree, tally.known);
        rep.count_n(&format!("t{}:agree", t), agree);
        rep.count_n(&format!("t{}:disagree", t), disagree);
        rep.count_n(&format!("t{}:disagree_matching_known_signature", t), known);
        rep.count_n(&format!("t{}:states", t), n);
        rep.require(&format!("t{}:states", t));
    }
    // communication state of messages sitting at the front of buffers of 2^31 / 2^32 bits (+ up to 70 bytes)
    super::c14::giant_buffer_probe(ctx, rep, PID, crate::gen::pm(&[16]), &mut r);
    rep.extra.insert("exhaustive_states".into(), J::Bool(true));
    rep.sample(3, || {
        let mut o = J::obj();
        o.set("case", J::s("type 18, selector 1, state bits 149..167 = sync 2, increment 0x1555, slots 5, keep 1"));
        o.set("expected", J::s("Itdma{sync: BaseStation, slot_increment: 5461, num_slots: 5, keep: true}"));
        o
    });
}
