//! C18 — std, alloc and no-allocator builds are observationally equivalent.
//! Each build runs the identical seeded workload (generation never looks at outcomes or at
//! the configuration) and records, per call, a hash of the input, a hash of the canonical
//! outcome and the capacity facts of what it delivered. `aismon cfgdiff` then checks the
//! three logs offline: std == alloc always; none == std unless std's facts show a fixed
//! capacity exceeded, in which case none must be an error (never a panic, never Ok).

use super::common::*;
use crate::armor;
use crate::bits::Bits;
use crate::decode_ref::decode_ref;
use crate::gen;
use crate::json::J;
use crate::mon::{self, Call, Ctx, MsgCall, Parser, Report};
use crate::nmea_ref::{self, Build, Scan};
use crate::observe::Outcome;
use crate::rng::{fnv, Rng};
use crate::val::RefOut;
use std::io::Write;

pub struct Logger {
    out: Option<std::io::BufWriter<std::fs::File>>,
    idx: u64,
    dump: Option<u64>,
    p: Parser,
    /// shadow parser: fed the same lines except those the capacity model says the
    /// no-allocator build must reject; its outcomes are what that build must return
    sp: Parser,
    open_len: usize,
}

fn h64(s: &[u8]) -> u64 {
    // two independent FNV passes folded: collision probability negligible for a diff
    fnv(s) ^ fnv(&[s, b"#"].concat()).rotate_left(29)
}

impl Logger {
    pub fn new() -> Self {
        let out = std::env::var("AISMON_LOG").ok().map(|p| std::io::BufWriter::new(std::fs::File::create(p).expect("log file")));
        let dump = std::env::var("AISMON_DUMP").ok().and_then(|s| s.parse().ok());
        Logger { out, idx: 0, dump, p: Parser::new(), sp: Parser::new(), open_len: 0 }
    }
    fn emit(&mut self, kind: &str, input: &[u8], extra_in: u64, canon: &str, facts: &str) {
        if let Some(o) = &mut self.out {
            let _ = writeln!(o, "{}\t{}\t{:016x}\t{:016x}\t{}", self.idx, kind, h64(input) ^ extra_in, h64(canon.as_bytes()), facts);
        }
        if self.dump == Some(self.idx) {
            let mut j = J::obj();
            j.set("index", J::i(self.idx));
            j.set("cfg", J::s(mon::CFG));
            j.set("call", J::s(kind));
            j.set("input_hex", J::hex(input));
            j.set("input_text", J::bytes(input));
            j.set("arg", J::i(extra_in));
            j.set("outcome", J::s(canon));
            j.set("facts", J::s(facts));
            eprintln!("AISMON-DUMP {}", j.to_string());
        }
        self.idx += 1;
    }
    pub fn reset_parser(&mut self) {
        self.p = Parser::new();
        self.sp = Parser::new();
        self.open_len = 0;
    }
    pub fn line(&mut self, rep: &mut Report, line: &[u8], decode: bool, wl: &str) {
        rep.eval();
        let c = self.p.parse(line, decode);
        let (n, k, plen) = match nmea_ref::scan(line) {
            Scan::Accept(f) => (f.n as i64, f.k as i64, f.payload.len() as i64),
            _ => (-1, -1, -1),
        };
        let describe = |c: &Call| -> (&'static str, String, i64, i64) {
            match c {
                Call::Panic(pi) => ("LP", format!("PANIC:{}", pi.msg), -1i64, 0),
                Call::Done(o) => {
                    let (kind, s) = match o {
                        Outcome::Complete(s) => ("LC", Some(s)),
                        Outcome::Incomplete(s) => ("LI", Some(s)),
                        Outcome::Err(_) => ("LE", None),
                    };
                    let dlen = s.map_or(-1, |s| s.data.len() as i64);
                    // capacity facts of the delivered message (from the reference model)
                    let over = match (o, decode) {
                        (Outcome::Complete(s), true) => match armor::unarmored_bits(&s.data, s.fill as usize).map(|v| decode_ref(&v)) {
                            Some(RefOut::Msg(m)) if m.caps.over() => 1,
                            _ => 0,
                        },
                        _ => 0,
                    };
                    (kind, o.canon(), dlen, over)
                }
            }
        };
        let (kind, canon, dlen, over) = describe(&c);
        // capacity model of the no-allocator build (10 lines): a sentence payload above 384
        // bytes cannot be read; a continuation that would take the open group above 384
        // bytes cannot be stored. Such lines are rejected and (C17) leave no trace, so the
        // expected behaviour is that of a parser that never saw them.
        // every line except an in-domain opener (k == 1 < n) and a single-sentence message
        // (n == 1) is appended to the open group if sequencing accepts it
        let appends = plen >= 0 && n != 1 && !(k == 1 && k < n);
        let skip = plen > 384 || (appends && self.open_len as i64 + plen > 384);
        let (skind, scanon, sover) = if skip {
            ("LE", "E:capacity".to_string(), 0)
        } else {
            let sc = self.sp.parse(line, decode);
            let (sk, scn, sdlen, sov) = describe(&sc);
            match sk {
                "LI" if k == 1 => self.open_len = sdlen.max(0) as usize,
                "LI" => self.open_len += plen.max(0) as usize,
                "LC" if n != 1 => self.open_len = 0,
                _ => {}
            }
            (sk, scn, sov)
        };
        let cls = if plen > 384 {
            "over-payload"
        } else if skip {
            "over-group"
        } else if sover == 1 {
            "over-message"
        } else if plen == 384 || (skind != "LE" && n >= 2 && self.open_len == 384) {
            "at-limit"
        } else {
            "within"
        };
        if self.idx % 9973 == 5 {
            rep.sample(5, || {
                let mut o = J::obj();
                o.set("call_index", J::i(self.idx));
                o.set("workload", J::s(wl));
                o.set("line", J::bytes(&line[..line.len().min(120)]));
                o.set("outcome_this_build", J::s(kind));
                o.set("shadow_expectation_for_noalloc", J::s(skind));
                o.set("capacity_class", J::s(cls));
                o
            });
        }
        rep.class(format!("{}|{}|decode={}|{}", wl, kind, decode as u8, cls));
        rep.count(&format!("line:{}", cls));
        let facts = format!(
            "n={} k={} plen={} dlen={} over={} decode={} skip={} sover={} skind={} shash={}",
            n, k, plen, dlen, over, decode as u8, skip as u8, sover, match skind { "LC" => 2, "LI" => 1, "LE" => 0, _ => 9 },
            (h64(scanon.as_bytes()) >> 1) as i64
        );
        self.emit(kind, line, decode as u64, &canon, &facts);
    }
    pub fn msg(&mut self, rep: &mut Report, buf: &[u8], wl: &str) {
        rep.eval();
        let c = mon::call_message(buf);
        let caps = match decode_ref(&Bits::from_bytes(buf)) {
            RefOut::Msg(m) => m.caps,
            _ => Default::default(),
        };
        let (kind, canon) = match &c {
            MsgCall::Ok(_, d) => ("MO", d.clone()),
            MsgCall::Err => ("ME", "Err".to_string()),
            MsgCall::Panic(pi) => ("MP", format!("PANIC:{}", pi.msg)),
        };
        let cls = if caps.data_len > 119 {
            "over-data"
        } else if caps.text_chars > 20 {
            "over-text"
        } else if caps.data_len == 119 || caps.text_chars == 20 {
            "at-limit"
        } else {
            "within"
        };
        rep.class(format!("{}|{}|{}", wl, kind, cls));
        rep.count(&format!("msg:{}", cls));
        let facts = format!("data={} text={}", caps.data_len, caps.text_chars);
        self.emit(kind, buf, 0, &canon, &facts);
    }
    pub fn unarmor(&mut self, rep: &mut Report, s: &[u8], fill: usize, wl: &str) {
        rep.eval();
        let c = mon::call_unarmor(s, fill);
        let (kind, canon) = match &c {
            Ok(Some(v)) => ("UO", crate::json::hex_str(v)),
            Ok(None) => ("UE", "Err".to_string()),
            Err(pi) => ("UP", format!("PANIC:{}", pi.msg)),
        };
        rep.class(format!("{}|{}|{}", wl, kind, if s.len() > 512 { "over-512" } else { "within" }));
        let facts = format!("len={}", s.len());
        self.emit(kind, s, fill as u64, &canon, &facts);
    }
    pub fn finish(mut self) -> u64 {
        if let Some(o) = &mut self.out {
            let _ = o.flush();
        }
        self.idx
    }
}

fn split_group(lg: &mut Logger, rep: &mut Report, r: &mut Rng, payload: &[u8], fill: u8, sizes: &[usize], decode: bool, wl: &str) {
    let n = sizes.len() as u8;
    let id = Some(r.below(10) as u8);
    let mut prev = 0;
    for (j, sz) in sizes.iter().enumerate() {
        let end = (prev + sz).min(payload.len());
        let f = if j + 1 == sizes.len() { fill } else { 0 };
        lg.line(rep, &nmea_ref::mk(n, (j + 1) as u8, id, &payload[prev..end], f), decode, wl);
        prev = end;
    }
}

pub fn run(ctx: &Ctx, rep: &mut Report) {
    let mut r = ctx.rng("c18");
    let mut lg = Logger::new();
    // (1) grammar lines on a long-lived parser
    for i in 0..ctx.budget(12_000, 600_000) {
        if i % 3000 == 0 {
            lg.reset_parser();
        }
        let mut b: Build = random_build(&mut r, 400);
        if r.chance(1, 12) {
            b.cks = Some(r.below(256) as u8);
        }
        if r.bool() {
            let n = r.range(2, 4) as u8;
            b.n = n.to_string();
            b.k = r.range(1, n as u64).to_string();
            b.id = r.range(0, 2).to_string();
        }
        lg.line(rep, &b.line(), r.bool(), "grammar");
    }
    // (2) corpus mutations
    let mut corpus: Vec<Vec<u8>> = nmea_ref::CORPUS.iter().map(|l| l.to_vec()).collect();
    for p in nmea_ref::PAYLOADS {
        corpus.push(nmea_ref::mk(1, 1, None, p, 0));
    }
    lg.reset_parser();
    for _ in 0..ctx.budget(10_000, 500_000) {
        let base = r.pick(&corpus).clone();
        let mut l = if r.chance(1, 4) { base } else { mutate(&mut r, &base) };
        if r.bool() {
            refix_checksum(&mut l);
        }
        lg.line(rep, &l, r.chance(3, 4), "corpus");
    }
    // (3) groups of valid messages (decode on), in order and with faults
    lg.reset_parser();
    for i in 0..ctx.budget(6_000, 300_000) {
        let br = if i % 6 == 0 { r.pick(gen::LONG_TEXT_BRANCHES) } else { r.pick(gen::BRANCHES) };
        let bits = gen::gen_message(br, &mut r);
        let (chars, fill) = bits.to_armor();
        if chars.len() < 4 || r.chance(1, 3) {
            lg.line(rep, &nmea_ref::mk(1, 1, None, &chars, fill), true, "messages-unfragmented");
            continue;
        }
        let parts = r.usize(2, 5.min(chars.len()));
        let mut sizes = vec![chars.len() / parts; parts];
        sizes[parts - 1] = chars.len() - (chars.len() / parts) * (parts - 1);
        split_group(&mut lg, rep, &mut r, &chars, fill, &sizes, true, "messages-fragmented");
        if r.chance(1, 5) {
            // stale / duplicate tail
            lg.line(rep, &nmea_ref::mk(parts as u8, parts as u8, Some(1), b"0000", 0), true, "stale-tail");
        }
    }
    // (4) capacity edges of the sentence layer: single payloads 383/384/385, groups crossing 384
    lg.reset_parser();
    for _ in 0..ctx.budget(300, 10_000) {
        for len in [383usize, 384, 385, 386, 400, 512, 600] {
            let pl = armor_chars(&mut r, len);
            lg.line(rep, &nmea_ref::mk(1, 1, None, &pl, 0), r.bool(), "edge-single-payload");
            lg.line(rep, &nmea_ref::mk(2, 1, Some(1), &pl, 0), false, "edge-opener-payload");
        }
        // groups crossing 384 at fragment 2, 3, last; and landing exactly on 384
        for total in [384usize, 385, 390, 610, 700] {
            let pl = armor_chars(&mut r, total);
            let plans: [&[usize]; 4] = [&[300, 400], &[200, 184, 400], &[128, 128, 128, 400], &[380, 4, 400]];
            for sizes in plans {
                let mut sz: Vec<usize> = Vec::new();
                let mut left = total;
                for (j, s) in sizes.iter().enumerate() {
                    let take = if j + 1 == sizes.len() { left } else { (*s).min(left.saturating_sub(1)).max(1) };
                    if take == 0 || left == 0 {
                        break;
                    }
                    sz.push(take.min(left));
                    left -= take.min(left);
                }
                if sz.len() >= 2 {
                    split_group(&mut lg, rep, &mut r, &pl, 0, &sz, false, "edge-group");
                    // replays after the capacity rejection: the rejected fragment again (same
                    // number), a small fragment with that number, then the rest of the group
                    let n = sz.len() as u8;
                    let id = Some(r.below(10) as u8);
                    let mut prev = 0;
                    for (j, s) in sz.iter().enumerate() {
                        let end = (prev + s).min(pl.len());
                        let k = (j + 1) as u8;
                        lg.line(rep, &nmea_ref::mk(n, k, id, &pl[prev..end], 0), false, "edge-replay");
                        if r.chance(1, 2) {
                            lg.line(rep, &nmea_ref::mk(n, k, id, &pl[prev..end], 0), r.chance(1, 4), "edge-replay-same");
                        }
                        if r.chance(1, 3) {
                            lg.line(rep, &nmea_ref::mk(n, k, id, b"0000", 0), false, "edge-replay-small");
                        }
                        prev = end;
                    }
                    lg.line(rep, &nmea_ref::mk(n, n, id, b"00", 0), r.bool(), "edge-replay-final");
                    // the following group must be unaffected in every build
                    let nxt = armor_chars(&mut r, 20);
                    split_group(&mut lg, rep, &mut r, &nxt, 0, &[10, 10], false, "edge-group-next");
                }
            }
        }
    }
    // (5) messages directly: every branch, capacity edges of data and text, truncations
    for i in 0..ctx.budget(20_000, 1_000_000) {
        let br = if i % 4 == 0 { r.pick(gen::LONG_TEXT_BRANCHES) } else { r.pick(gen::BRANCHES) };
        let mut bits = gen::gen_message(br, &mut r);
        if r.chance(1, 5) {
            let cut = r.usize(0, bits.len());
            bits.truncate(cut);
        }
        if r.chance(1, 8) {
            let n = bits.len() + r.usize(1, 64);
            bits.extend_random(n, &mut r);
        }
        lg.msg(rep, &bits.to_bytes(), br.name);
    }
    // (5b) every text field of every layout within capacity with the text shapes of C13 (padding
    // mixes, one character on padding, dictionary words, trim corners): the trimming rule is
    // the same code in every build only as long as nobody adds a build-specific short cut
    for b in gen::BRANCHES.iter() {
        let fs = super::c04::fields_of(b, &mut r, Some(13));
        for f in &fs {
            let k = (f.width / 6) as usize;
            if k == 0 || k > 20 {
                continue;
            }
            for (si, (_name, chars)) in super::c13::shapes(k, &mut r).into_iter().enumerate() {
                let mut bits = gen::gen_message(b, &mut r);
                if !ctx.thorough() && si % 2 == 1 && k > 10 {
                    continue;
                }
                for (i, c) in chars.iter().enumerate() {
                    bits.put(f.start as usize + 6 * i, 6, *c as u64);
                }
                lg.msg(rep, &bits.to_bytes(), "text-shape");
            }
        }
    }
    // padding-induced extra character), lists with 4, 5, 6 elements present
    for _ in 0..ctx.budget(200, 10_000) {
        for (t, hdr) in [(6u8, 11usize), (8, 7), (17, 15)] {
            for d in [117usize, 118, 119, 120, 121, 200] {
                let mut buf = r.bytes(hdr + d);
                buf[0] = (t << 2) | (buf[0] & 3);
                lg.msg(rep, &buf, "edge-data");
            }
        }
        for (t, hdr) in [(12u8, 72usize), (14, 40)] {
            for chars in [19usize, 20, 21, 22, 25, 60] {
                for extra in [0usize, 2, 4, 6] {
                    let mut bits = Bits::random(hdr + 6 * chars + extra, &mut r);
                    bits.put(0, 6, t as u64);
                    lg.msg(rep, &bits.to_bytes(), "edge-text");
                    // trailing padding characters: trimmed length fits, untrimmed does not
                    let mut b2 = bits.clone();
                    for c in 18..chars {
                        b2.put(hdr + 6 * c, 6, 0);
                    }
                    lg.msg(rep, &b2.to_bytes(), "edge-text-padded");
                }
            }
        }
        for (t, el) in [(7u8, 32usize), (13, 32), (20, 30)] {
            for cnt in [1usize, 4, 5, 6, 9] {
                let mut bits = Bits::random(40 + el * cnt, &mut r);
                bits.put(0, 6, t as u64);
                lg.msg(rep, &bits.to_bytes(), "edge-list");
            }
        }
        let mut bits = Bits::random(*r.pick(&[160usize, 168, 176, 200, 240]), &mut r);
        bits.put(0, 6, 15);
        lg.msg(rep, &bits.to_bytes(), "edge-interrogation");
    }
    // (6) unarmor: lengths around 512 and random
    for _ in 0..ctx.budget(150, 5_000) {
        for len in [0usize, 1, 2, 3, 4, 5, 100, 511, 512, 513, 514, 515, 516, 700] {
            let s = armor_chars(&mut r, len);
            lg.unarmor(rep, &s, r.below(6) as usize, "unarmor");
        }
        let n = r.usize(0, 40);
        let s = r.bytes(n);
        lg.unarmor(rep, &s, r.below(6) as usize, "unarmor-raw");
    }
    let calls = lg.finish();
    rep.extra.insert("calls_logged".into(), J::i(calls));
    rep.sample(2, || {
        let mut o = J::obj();
        o.set("case", J::s("group of 300 + 300 + 10 payload characters, decode off"));
        o.set("rule", J::s("std == alloc; none must be Err from the overflowing fragment until the next opener"));
        o
    });
}

// ---------------------------------------------------------------------------
// offline differential checker over three logs (runs in any build)

struct Entry {
    idx: u64,
    kind: String,
    inh: String,
    outh: String,
    facts: std::collections::BTreeMap<String, i64>,
}

fn parse_entry(l: &str) -> Option<Entry> {
    let mut it = l.split('\t');
    let idx = it.next()?.parse().ok()?;
    let kind = it.next()?.to_string();
    let inh = it.next()?.to_string();
    let outh = it.next()?.to_string();
    let mut facts = std::collections::BTreeMap::new();
    for kv in it.next().unwrap_or("").split(' ') {
        if let Some((k, v)) = kv.split_once('=') {
            if let Ok(v) = v.parse::<i64>() {
                facts.insert(k.to_string(), v);
            }
        }
    }
    Some(Entry { idx, kind, inh, outh, facts })
}

/// returns JSON summary on stdout; exit code 0 always (the driver reads the summary)
pub fn cfgdiff(std_log: &str, alloc_log: &str, none_log: &str) -> i32 {
    use std::io::BufRead;
    let open = |p: &str| std::io::BufReader::new(std::fs::File::open(p).expect("open log")).lines();
    let (mut a, mut b, mut c) = (open(std_log), open(alloc_log), open(none_log));
    let mut compared = 0u64;
    let mut exempt = 0u64;
    let mut unjudged = 0u64;
    let mut viol: Vec<J> = Vec::new();
    let mut nviol = 0u64;
    let mut classes: std::collections::BTreeMap<String, u64> = std::collections::BTreeMap::new();
    let mut push = |viol: &mut Vec<J>, nviol: &mut u64, sig: &str, idx: u64, why: String| {
        *nviol += 1;
        if viol.len() < 40 {
            let mut o = J::obj();
            o.set("sig", J::s(sig));
            o.set("index", J::i(idx));
            o.set("detail", J::s(&why));
            viol.push(o);
        }
    };
    loop {
        let (la, lb, lc) = (a.next(), b.next(), c.next());
        let (la, lb, lc) = match (la, lb, lc) {
            (None, None, None) => break,
            (Some(Ok(x)), Some(Ok(y)), Some(Ok(z))) => (x, y, z),
            _ => {
                push(&mut viol, &mut nviol, "log-length-differs", compared, "the three logs have different lengths (a build died or the workload diverged)".into());
                break;
            }
        };
        let (s, al, no) = match (parse_entry(&la), parse_entry(&lb), parse_entry(&lc)) {
            (Some(x), Some(y), Some(z)) => (x, y, z),
            _ => {
                push(&mut viol, &mut nviol, "log-unparsable", compared, "unparsable log line".into());
                break;
            }
        };
        if s.inh != al.inh || s.inh != no.inh || s.idx != al.idx || s.idx != no.idx {
            push(&mut viol, &mut nviol, "workload-diverged", s.idx, "input hashes differ between builds: the generator is not configuration-independent (harness defect)".into());
            break;
        }
        compared += 1;
        let is_panic = |k: &str| k.ends_with('P');
        if is_panic(&s.kind) || is_panic(&al.kind) || is_panic(&no.kind) {
            push(&mut viol, &mut nviol, "panic", s.idx, format!("a build panicked: std {} alloc {} none {}", s.kind, al.kind, no.kind));
            continue;
        }
        if s.outh != al.outh || s.kind != al.kind {
            push(&mut viol, &mut nviol, "std-vs-alloc", s.idx, format!("std ({}) and alloc ({}) differ on call {}", s.kind, al.kind, s.idx));
        }
        let f = |k: &str| *s.facts.get(k).unwrap_or(&-1);
        let mut must_err = false;
        let mut skip = false;
        let mut class = "within";
        let mut line_expect: Option<(i64, i64, i64)> = None;
        match s.kind.as_bytes()[0] {
            b'L' => {
                // the no-allocator build must behave like std's shadow parser, which never saw
                // the lines exceeding a sentence-layer capacity (see Logger::line)
                let fa = |k: &str| *al.facts.get(k).unwrap_or(&-1);
                if f("shash") != fa("shash") || f("skind") != fa("skind") {
                    push(&mut viol, &mut nviol, "std-vs-alloc", s.idx, format!("std and alloc shadow parsers differ on call {}", s.idx));
                }
                let nk = match no.kind.as_str() {
                    "LC" => 2,
                    "LI" => 1,
                    "LE" => 0,
                    _ => 9,
                };
                line_expect = Some((f("skind"), f("shash"), nk));
                if f("skip") == 1 {
                    must_err = true;
                    class = if f("plen") > 384 { "over-payload" } else { "over-group" };
                } else if f("sover") == 1 {
                    must_err = true;
                    class = "over-message";
                } else if f("plen") == 384 {
                    class = "at-limit";
                }
            }
            b'M' => {
                if f("data") > 119 {
                    must_err = true;
                    class = "over-data";
                } else if f("text") > 20 {
                    must_err = true;
                    class = "over-text";
                } else if f("data") == 119 || f("text") == 20 {
                    class = "at-limit";
                }
            }
            _ => {
                if f("len") > 512 {
                    must_err = true;
                    class = "over-unarmor";
                }
            }
        }
        *classes.entry(format!("{}|{}|none={}", class, s.kind, no.kind)).or_insert(0) += 1;
        if skip {
            unjudged += 1;
        } else if must_err {
            exempt += 1;
            // an error, or (hypothetically) the very same result as std; anything else is a
            // truncated or otherwise different delivery
            let same_as_shadow = match line_expect {
                Some((skind, shash, nk)) => skind == nk && shash == (u64::from_str_radix(&no.outh, 16).unwrap_or(0) >> 1) as i64,
                None => no.outh == s.outh && no.kind == s.kind,
            };
            if !no.kind.ends_with('E') && !same_as_shadow {
                push(&mut viol, &mut nviol, &format!("noalloc-accepted-{}", class), s.idx, format!("call {} exceeds a fixed capacity ({}) but the no-allocator build returned {} instead of an error", s.idx, class, no.kind));
            }
        } else if let Some((skind, shash, nk)) = line_expect {
            let nh = (u64::from_str_radix(&no.outh, 16).unwrap_or(0) >> 1) as i64;
            if skind != nk || (nk != 0 && shash != nh) {
                push(&mut viol, &mut nviol, "std-vs-none", s.idx, format!("call {}: the no-allocator build returned {} where std, fed the same history minus the over-capacity lines, returns kind {}", s.idx, no.kind, skind));
            }
        } else if no.outh != s.outh || no.kind != s.kind {
            push(&mut viol, &mut nviol, "std-vs-none", s.idx, format!("std ({}) and none ({}) differ on call {} although no capacity is exceeded", s.kind, no.kind, s.idx));
        }
    }
    let mut j = J::obj();
    j.set("compared", J::i(compared));
    j.set("exempt_must_err", J::i(exempt));
    j.set("unjudged", J::i(unjudged));
    j.set("nviol", J::i(nviol));
    j.set("violations", J::Arr(viol));
    let mut cj = J::obj();
    for (k, v) in classes {
        cj.set(&k, J::i(v));
    }
    j.set("classes", cj);
    println!("{}", j.to_string());
    0
}
