//! C14 — variable-length messages decode what is present; short payloads are rejected.
//! Oracle: the length rules of `decode_ref` (mandatory length, element counts, acceptance at
//! specification-legal lengths, nothing fabricated from bits beyond the end).

use crate::bits::Bits;
use crate::decode_ref::SUPPORTED;
use crate::gen::{self, Via};
use crate::json::J;
use crate::mon::{Ctx, Report};
use crate::val::RefOut;
use std::collections::BTreeMap;

const PID: &str = "C14";

/// Buffers far beyond the protocol maximum whose bit count sits around 2^16 and 2^17 (a 16-bit
/// "remaining bits" would wrap), and buffers holding 2^8 or 2^16 (+ a few) elements of the element
/// widths that occur in the variable-length messages (6-bit characters, bytes, 30- and 32-bit list
/// entries) behind headers of 38 .. ~560 bits (an element *count* kept in 8 or 16 bits wraps
/// there): what is reported must still equal the bits. Shared by the message-level checks, each
/// with its own ownership mask. std / alloc builds only.
pub fn wrap_probe(ctx: &Ctx, rep: &mut Report, pid: &str, mask: u32, r: &mut crate::rng::Rng) {
    if crate::mon::is_noalloc() {
        return;
    }
    let mut item = 5000u64;
    for &t in SUPPORTED.iter() {
        if !ctx.mine(item) {
            item += 1;
            continue;
        }
        item += 1;
        for bytes in (8185usize..=8235).chain(16_377..=16_430) {
            let mut bits = Bits::random(bytes * 8, r);
            bits.put(0, 6, t as u64);
            let v = gen::run_message_mask(rep, pid, mask, &bits, Via::Raw, "wrap-length");
            rep.class(format!("t{}|wrap-length|{}", t, v.outcome));
        }
        for w in [6usize, 8, 30, 32] {
            for k in [8u32, 16] {
                let centre = (40 + (1usize << k) * w) / 8;
                for bytes in (centre - 6)..(centre + 70) {
                    let mut bits = Bits::random(bytes * 8, r);
                    bits.put(0, 6, t as u64);
                    let v = gen::run_message_mask(rep, pid, mask, &bits, Via::Raw, "wrap-count");
                    rep.class(format!("t{}|wrap-count|w{}|2^{}|{}", t, w, k, v.outcome));
                }
            }
        }
    }
}

/// Buffers of 2^31 and 2^32 bits (and a little more) handed to `messages::parse`: a message of a
/// type whose decoding reads a bounded prefix, followed by zeros. The reference model gives the
/// same field list for such a type at 2^17 bits and at 2^17 + 64 bits (checked here); that list is
/// then the expectation for the giant buffer. The buffer is zero-allocated and only its first page
/// is touched, so the probe is cheap; types that read to the end of the buffer are left out.
pub fn giant_buffer_probe(ctx: &Ctx, rep: &mut Report, pid: &str, mask: u32, r: &mut crate::rng::Rng) {
    let mut item = 1000u64;
    for &t in SUPPORTED.iter() {
        if matches!(t, 6 | 8 | 12 | 14 | 17 | 25 | 26) {
            continue;
        }
        if t == 9 && pid == "C16" {
            // known finding F9 (type 9 communication state): judged by the exhaustive sweep of C16
            continue;
        }
        // every byte count from 2^28 - 2 and 2^29 - 2 to + 70: the count of bits left at any field of
        // any of these types wraps a 31- / 32-bit counter somewhere in the window
        let sizes: Vec<usize> = ((1usize << 28) - 2..=(1 << 28) + 70).chain((1 << 29) - 2..=(1 << 29) + 70).collect();
        for &bytes in &sizes {
            if !ctx.mine(item) {
                item += 1;
                continue;
            }
            item += 1;
            let mut prefix = Bits::random(1100, r);
            prefix.put(0, 6, t as u64);
            let stable = |extra: usize| {
                let mut v = prefix.clone();
                v.extend_zeros((1 << 17) + extra);
                crate::decode_ref::decode_ref(&v)
            };
            let (e1, e2) = (stable(0), stable(64));
            let exp = match (&e1, &e2) {
                (RefOut::Msg(a), RefOut::Msg(b)) if a.f.len() == b.f.len() && a.variant == b.variant => a.clone(),
                _ => {
                    rep.count("giant-buffer-type-not-length-stable");
                    continue;
                }
            };
            let mut buf = vec![0u8; bytes];
            let pb = prefix.to_bytes();
            buf[..pb.len()].copy_from_slice(&pb);
            rep.eval();
            rep.class(format!("t{}|giant-buffer|2^{}", t, if bytes >= 1 << 29 { 32 } else { 31 }));
            rep.count("giant-buffers");
            let what = format!("type {} message followed by zeros, {} bytes in all", t, bytes);
            crate::mon::allow(buf.len());
            match crate::mon::guard(|| ais::messages::parse(&buf).ok().map(|m| crate::observe::message(&m))) {
                Err(pi) => rep.violation(pid, format!("panic@{}", pi.loc), format!("{}: panic '{}'", what, pi.msg), || crate::mon::replay_message(&pb, "giant buffer (prefix shown; zeros follow)")),
                Ok(None) => {
                    if exp.must_ok || true {
                        // far beyond any legal length: an error is allowed
                        rep.count("giant-buffer-rejected");
                    }
                }
                Ok(Some(obs)) => {
                    for m in crate::val::compare(&exp, &obs) {
                        if m.prop <= 1 || (mask >> m.prop) & 1 == 1 {
                            rep.violation(pid, format!("t{}:{}:giant-buffer", t, m.key), format!("{}: field {} expected {} observed {}", what, m.key, m.expected, m.observed), || crate::mon::replay_message(&pb, "giant buffer (prefix shown; zeros follow)"));
                            break;
                        }
                    }
                }
            }
        }
    }
}

fn max_bits(t: u8) -> usize {
    match t {
        5 => 424,
        6 | 8 | 12 | 14 | 17 => 1008,
        19 => 312,
        21 => 360,
        _ => 168,
    }
}

pub fn run(ctx: &Ctx, rep: &mut Report) {
    let mut r = ctx.rng("c14");
    // owned: length/count rules, and every reported value except the communication state
    // (own exhaustive check) — "whatever is reported must equal the bits at its position"
    let mask = gen::pm(&[4, 9, 10, 11, 12, 13, 14, 15]);
    let mut item = 0u64;
    let mut thresholds: BTreeMap<String, u64> = BTreeMap::new();
    for &t in SUPPORTED.iter() {
        let top = max_bits(t) + 66;
        for l in 0..=top {
            if !ctx.mine(item) {
                item += 1;
                continue;
            }
            item += 1;
            // l transmitted bits = n characters with fill 6n - l; every (n, fill) pair occurs
            let contents = if ctx.thorough() { 96 } else { 24 };
            for c in 0..=contents {
                // random contents, plus all-ones (a fabricated field cannot hide as zero) and
                // all-zero (an element that is present but zero must still be counted)
                let mut bits = if c == contents {
                    Bits::ones(l)
                } else if c + 1 == contents {
                    Bits::zeros(l)
                } else {
                    Bits::random(l, &mut r)
                };
                if l >= 6 {
                    bits.put(0, 6, t as u64);
                } else if l > 0 {
                    // fewer than six bits: the first character still carries the type's top bits
                    bits.put(0, l, (t as u64) >> (6 - l));
                }
                if t == 24 && l >= 40 {
                    bits.put(38, 2, (c % 4) as u64);
                }
                let via = match (c + l) % 3 {
                    0 => Via::Armor,
                    1 => Via::Line,
                    _ => {
                        if l % 8 == 0 {
                            // whole bytes: the raw buffer through `messages::parse` or through
                            // the per-type `AisMessageType::parse`
                            if c % 2 == 0 {
                                Via::Raw
                            } else {
                                Via::Direct
                            }
                        } else {
                            Via::Armor
                        }
                    }
                };
                if l == 0 && via == Via::Line {
                    continue; // an empty payload is not a well-formed sentence (C08)
                }
                let n = (l + 5) / 6;
                let fill = n * 6 - l;
                let v = gen::run_message_mask(rep, PID, mask, &bits, via, "length-sweep");
                let refk = match &v.refout {
                    RefOut::Unsupported => "unsupported",
                    RefOut::TooShort(_) => "must-reject",
                    RefOut::Msg(m) if m.must_ok => "must-accept",
                    RefOut::Msg(_) => "either",
                };
                rep.class(format!("t{}|n={}|fill={}|{}|{}", t, n, fill, refk, v.outcome));
                rep.count(refk);
                if v.outcome == "ok" {
                    let k = format!("first_ok_bits_t{}", t);
                    let e = thresholds.entry(k).or_insert(u64::MAX);
                    *e = (*e).min(l as u64);
                }
                if v.outcome == "err" {
                    let k = format!("last_err_bits_t{}", t);
                    let e = thresholds.entry(k).or_insert(0);
                    *e = (*e).max(l as u64);
                }
            }
        }
    }
    // the layout branches at their legal lengths with random content (element counts asserted)
    for b in gen::BRANCHES.iter().chain(gen::LONG_TEXT_BRANCHES.iter()) {
        if !ctx.mine(item) {
            item += 1;
            continue;
        }
        item += 1;
        // corner values (0, 1, max-1, max) of every pair of neighbouring reference fields, of any
        // kind: an element whose fields are all zero is still an element
        let mut fl = super::c04::fields_of(b, &mut r, None);
        fl.sort_by_key(|f| f.start);
        for w in fl.windows(2) {
            let corners = |width: usize| -> [u64; 4] {
                let max = if width >= 64 { u64::MAX } else { (1u64 << width) - 1 };
                [0, 1.min(max), max.saturating_sub(1), max]
            };
            for va in corners(w[0].width as usize) {
                for vb in corners(w[1].width as usize) {
                    let mut bits = gen::gen_message(b, &mut r);
                    bits.put(w[0].start as usize, w[0].width as usize, va);
                    bits.put(w[1].start as usize, w[1].width as usize, vb);
                    gen::run_message_mask(rep, PID, mask, &bits, Via::Raw, b.name);
                    rep.count("pair-corner");
                }
            }
        }
        for i in 0..ctx.budget(3000, 60_000) {
            let bits = gen::gen_message(b, &mut r);
            let via = if i % 7 == 6 { Via::Group } else { [Via::Raw, Via::Armor, Via::Line][(i % 3) as usize] };
            let v = gen::run_message_mask(rep, PID, mask, &bits, via, b.name);
            rep.class(format!("{}|{:?}|{}", b.name, via, v.outcome));
            rep.count("legal-branch");
        }
    }
    wrap_probe(ctx, rep, PID, mask, &mut r);
    giant_buffer_probe(ctx, rep, PID, mask, &mut r);
    let mut th = J::obj();
    for (k, v) in thresholds {
        th.set(&k, J::i(v));
    }
    rep.extra.insert("thresholds_seen_this_shard".into(), th);
    rep.extra.insert("exhaustive_lengths".into(), J::Bool(true));
    rep.require("must-reject");
    rep.require("must-accept");
    rep.require("either");
    rep.sample(3, || {
        let mut o = J::obj();
        o.set("case", J::s("type 7 with 18 characters, fill 4 (104 bits): two complete acknowledgements"));
        o.set("expected", J::s("Ok with exactly 2 entries"));
        o
    });
}
