//! C10 — coordinates are sign-extended and scaled exactly; speeds/courses scaled.
//! Oracle: exact rational (raw/600000, raw/600, raw/10, raw) with 2.5e-7 relative tolerance
//! ("correct to single-precision rounding"); sign extension done on the bit string.

use super::c04::{fields_of, fresh, via_for};
use crate::gen::{self, Branch};
use crate::json::J;
use crate::mon::{self, Ctx, Report};
use crate::rng::Rng;
use crate::val::*;

const PID: &str = "C10";

fn put_bits(buf: &mut [u8], start: usize, width: usize, val: u64) {
    for i in 0..width {
        let bit = (val >> (width - 1 - i)) & 1;
        let pos = start + i;
        let mask = 0x80u8 >> (pos % 8);
        if bit == 1 {
            buf[pos / 8] |= mask;
        } else {
            buf[pos / 8] &= !mask;
        }
    }
}

fn coord_params(width: usize) -> (f64, i64) {
    match width {
        28 => (600000.0, 108_600_000),
        27 => (600000.0, 54_600_000),
        18 => (600.0, 108_600),
        _ => (600.0, 54_600),
    }
}

fn stratum(width: usize, raw: u64) -> &'static str {
    let half = 1u64 << (width - 1);
    let (_, sent) = coord_params(width);
    let s = if raw >= half { raw as i64 - (1i64 << width) } else { raw as i64 };
    if raw == half {
        "negative-most"
    } else if raw == half - 1 {
        "positive-most"
    } else if (s - sent).abs() <= 4 {
        "sentinel-neighbourhood"
    } else if s.abs() <= 4096 {
        "zero-neighbourhood"
    } else if raw.count_ones() == 1 {
        "single-bit"
    } else if s < 0 {
        "negative"
    } else {
        "positive"
    }
}

/// fast path: sweep raw values of one coordinate field directly on a byte buffer
fn fast_sweep(ctx: &Ctx, rep: &mut Report, r: &mut Rng, b: &Branch, f: &ExpF, values: &mut dyn Iterator<Item = u64>) {
    let width = f.width as usize;
    let (div, sent) = coord_params(width);
    let is_lon = f.key == "longitude";
    let mut base = fresh(b, r).to_bytes();
    let mut n = 0u64;
    let _ = ctx;
    for raw in values {
        if n % 256 == 0 {
            base = fresh(b, r).to_bytes();
        }
        n += 1;
        put_bits(&mut base, f.start as usize, width, raw);
        let s = if raw >> (width - 1) == 1 { raw as i64 - (1i64 << width) } else { raw as i64 };
        rep.eval();
        let got = match mon::call_coords(&base) {
            Err(pi) => {
                let buf = base.clone();
                rep.violation(PID, format!("panic@{}", pi.loc), format!("{} {} raw {}: panic '{}'", b.name, f.key, raw, pi.msg), || mon::replay_message(&buf, b.name));
                continue;
            }
            Ok(Some(Some((lo, la)))) => {
                if is_lon {
                    lo
                } else {
                    la
                }
            }
            Ok(_) => {
                let buf = base.clone();
                rep.violation(PID, format!("t{}:{}:rejected", b.t, f.key), format!("{} with {} raw {} was rejected or decoded as another kind", b.name, f.key, raw), || mon::replay_message(&buf, b.name));
                continue;
            }
        };
        if s == sent {
            // the sentinel itself is C11's business
            rep.count("sentinel_skipped");
            continue;
        }
        let want = s as f64 / div;
        let ok = match got {
            Some(y) => ((y as f64) - want).abs() <= FTOL * want.abs(),
            None => false,
        };
        if !ok {
            let buf = base.clone();
            rep.violation(
                PID,
                format!("t{}:{}", b.t, f.key),
                format!("{} {} raw {} (signed {}): expected {} degrees, observed {:?}", b.name, f.key, raw, s, want, got),
                || mon::replay_message(&buf, b.name),
            );
        }
        if n % 50_000 == 7 {
            rep.sample(6, || {
                let mut o = J::obj();
                o.set("branch", J::s(b.name));
                o.set("field", J::s(f.key));
                o.set("raw", J::i(raw));
                o.set("expected_degrees", J::Num(want));
                o.set("observed", J::s(&format!("{:?}", got)));
                o
            });
        }
        if n % 4096 == 1 || (s - sent).abs() < 4 || s.abs() < 4 {
            rep.class(format!("t{}|{}|{}", b.t, f.key, stratum(width, raw)));
        }
    }
    rep.count_n(&format!("swept:{}:{}", b.name, f.key), n);
}

pub fn run(ctx: &Ctx, rep: &mut Report) {
    let mut r = ctx.rng("c10");
    let mut item = 0u64;
    let mut n = 0u64;
    // one branch per type is enough for coordinates: pick the first branch of each type
    let mut seen_types: Vec<u8> = Vec::new();
    for b in gen::BRANCHES.iter() {
        let fs = fields_of(b, &mut r, Some(10));
        if fs.is_empty() {
            continue;
        }
        let first_of_type = !seen_types.contains(&b.t);
        if first_of_type {
            seen_types.push(b.t);
        }
        for f in &fs {
            let width = f.width as usize;
            let is_coord = f.key == "longitude" || f.key == "latitude";
            if is_coord {
                if !first_of_type {
                    continue;
                }
                let total = 1u64 << width;
                if ctx.thorough() || width <= 18 {
                    // every raw value, split over the shards in contiguous blocks of 4096
                    let nsh = ctx.nshards;
                    let sh = ctx.shard;
                    let mut it = (0..total).filter(move |v| (v / 4096) % nsh == sh);
                    fast_sweep(ctx, rep, &mut r, b, f, &mut it);
                    rep.extra.insert(format!("exhaustive:{}:{}", b.name, f.key), J::Bool(true));
                } else {
                    // stratified: neighbourhoods, powers of two +-1, strided, random
                    if !ctx.mine(item) {
                        item += 1;
                        continue;
                    }
                    item += 1;
                    let (_, sent) = coord_params(width);
                    let mask = total - 1;
                    let mut vals: Vec<u64> = Vec::new();
                    for d in -4096i64..=4096 {
                        vals.push((d as u64) & mask);
                    }
                    let half = total / 2;
                    for d in 0..64u64 {
                        vals.push(half + d);
                        vals.push(half - 1 - d);
                        vals.push(((sent + d as i64 - 32) as u64) & mask);
                        vals.push(((-sent + d as i64 - 32) as u64) & mask);
                        vals.push((((sent / 181 * 180) + d as i64 - 32) as u64) & mask);
                        vals.push(((-(sent / 181 * 180) + d as i64 - 32) as u64) & mask);
                    }
                    for i in 0..width {
                        for d in [-1i64, 0, 1] {
                            vals.push(((1i64 << i) + d) as u64 & mask);
                            vals.push((-(1i64 << i) + d) as u64 & mask);
                        }
                    }
                    for k in 0..width {
                        for base in [sent, -sent] {
                            vals.push(((base ^ (1i64 << k)) as u64) & mask);
                            vals.push(((base + (1i64 << k)) as u64) & mask);
                            vals.push(((base - (1i64 << k)) as u64) & mask);
                        }
                    }
                    for deg in -181i64..=181 {
                        for d in -2i64..=2 {
                            vals.push(((deg * 600_000 + d) as u64) & mask);
                        }
                    }
                    let mut v = 0u64;
                    while v < total {
                        vals.push(v);
                        v += 211;
                    }
                    for _ in 0..(1 << 18) {
                        vals.push(r.bits(width as u32));
                    }
                    let mut it = vals.into_iter();
                    fast_sweep(ctx, rep, &mut r, b, f, &mut it);
                }
            } else {
                // speed / course / draught: every raw value through the full oracle
                if !ctx.mine(item) {
                    item += 1;
                    continue;
                }
                item += 1;
                for val in 0..(1u64 << width) {
                    let reps = if ctx.thorough() { 8 } else { 1 };
                    for _ in 0..reps {
                        let mut bits = fresh(b, &mut r);
                        bits.put(f.start as usize, width, val);
                        n += 1;
                        rep.class(format!("t{}|{}|{}", b.t, f.key, if val < 8 { "low" } else if val >= (1 << width) - 8 { "high" } else { "mid" }));
                        gen::run_message(rep, PID, Some(10), &bits, via_for(n), b.name);
                    }
                }
                rep.extra.insert(format!("exhaustive:{}:{}", b.name, f.key), J::Bool(true));
            }
        }
        // joint random messages through the full oracle (all C10 fields at once)
        if ctx.mine(item) {
            for _ in 0..ctx.budget(20_000, 300_000) {
                let bits = fresh(b, &mut r);
                n += 1;
                rep.class(format!("t{}|joint", b.t));
                gen::run_message(rep, PID, Some(10), &bits, via_for(n), b.name);
            }
        }
        item += 1;
    }
    super::c04::corner_sampler(ctx, rep, PID, 10, &mut r, 20_000, 400_000);
    super::c14::wrap_probe(ctx, rep, PID, crate::gen::pm(&[10]), &mut r);
    super::c14::giant_buffer_probe(ctx, rep, PID, crate::gen::pm(&[10]), &mut r);
    rep.sample(3, || {
        let mut o = J::obj();
        o.set("case", J::s("type 1 longitude raw 0x8000000 (most negative 28-bit value)"));
        o.set("expected_degrees", J::Num(-134217728.0 / 600000.0));
        o
    });
}
