//! C13 — text fields are the 6-bit ASCII decoding with padding stripped.
//! Oracle: `decode_ref::text_ref` (ascii6 + trim leading spaces, trailing '@', trailing spaces).

use super::c04::{fields_of, fresh, via_for};
use crate::bits::Bits;
use crate::gen::{self, Branch};
use crate::json::J;
use crate::mon::{Ctx, Report};
use crate::rng::Rng;
use crate::val::ExpF;

const PID: &str = "C13";

fn put_text(bits: &mut Bits, f: &ExpF, chars: &[u8]) {
    for (i, c) in chars.iter().enumerate() {
        bits.put(f.start as usize + 6 * i, 6, *c as u64);
    }
}

fn run_one(rep: &mut Report, b: &Branch, bits: &Bits, n: &mut u64, f: &ExpF, shape: &str) {
    *n += 1;
    rep.class(format!("{}|{}|{}", b.name, f.key, shape));
    let v = gen::run_message(rep, PID, Some(13), bits, via_for(*n), b.name);
    rep.count(match v.outcome {
        "ok" => "decoded",
        "err" => "rejected",
        _ => "panicked",
    });
}

/// 6-bit codes: 0 = '@', 32 = ' ', 63 = '?', 1 = 'A'
const AT: u8 = 0;
const SP: u8 = 32;

pub const DICTIONARY: [&str; 16] = [
    "SART ACTIVE", "SART TEST", "MOB ACTIVE", "MOB TEST", "EPIRB ACTIVE", "EPIRB TEST", "MAYDAY", "PAN PAN", "SECURITE", "TEST", "NOT AVAILABLE", "N/A", "UNKNOWN", "NONE", "NULL", "0",
];

pub fn shapes(k: usize, r: &mut Rng) -> Vec<(String, Vec<u8>)> {
    let mut v: Vec<(String, Vec<u8>)> = Vec::new();
    let letters = |r: &mut Rng, n: usize| -> Vec<u8> { (0..n).map(|_| 1 + r.below(26) as u8).collect() };
    v.push(("all-at".into(), vec![AT; k]));
    v.push(("all-space".into(), vec![SP; k]));
    v.push(("all-question".into(), vec![63; k]));
    v.push(("all-underscore".into(), vec![31; k]));
    for run in 0..=k {
        // leading spaces, trailing '@', trailing spaces, mixed tails
        let mut s = letters(r, k);
        for c in s.iter_mut().take(run) {
            *c = SP;
        }
        v.push((format!("lead-space-{}", run.min(3)), s));
        let mut s = letters(r, k);
        for c in s.iter_mut().rev().take(run) {
            *c = AT;
        }
        v.push((format!("trail-at-{}", run.min(3)), s));
        let mut s = letters(r, k);
        for c in s.iter_mut().rev().take(run) {
            *c = SP;
        }
        v.push((format!("trail-space-{}", run.min(3)), s));
        let mut s = letters(r, k);
        for c in s.iter_mut().take(run) {
            *c = AT;
        }
        v.push((format!("lead-at-{}", run.min(3)), s));
    }
    if k >= 5 {
        // order-sensitive tails: "AB@ @", " @A", "A @", "A@ ", interior '@' and spaces
        let mut s = letters(r, k);
        let e = k;
        s[e - 3] = AT;
        s[e - 2] = SP;
        s[e - 1] = AT;
        v.push(("tail-at-space-at".into(), s));
        let mut s = letters(r, k);
        s[0] = SP;
        s[1] = AT;
        v.push(("head-space-at".into(), s));
        let mut s = letters(r, k);
        s[e - 2] = SP;
        s[e - 1] = AT;
        v.push(("tail-space-at".into(), s));
        let mut s = letters(r, k);
        s[e - 2] = AT;
        s[e - 1] = SP;
        v.push(("tail-at-space".into(), s));
        let mut s = vec![AT; k];
        s[0] = 1;
        s[2] = 1;
        v.push(("interior-at".into(), s));
        let mut s = vec![SP; k];
        s[1] = 1;
        s[3] = 2;
        v.push(("interior-space".into(), s));
        let mut s = vec![AT; k];
        s[k / 2] = SP;
        v.push(("at-space-at-only".into(), s));
        let mut s = vec![SP; k];
        s[k / 2] = AT;
        v.push(("space-at-space-only".into(), s));
    }
    // fields made of padding characters only, both kinds mixed: every pattern up to 10
    // characters, 600 random patterns and the run patterns beyond (the three trimming steps apply in
    // a fixed order, so "@@@ @@" is not the same as "@@@@@@")
    if k <= 10 {
        for m in 0..(1u32 << k) {
            v.push(("padding-mix".into(), (0..k).map(|i| if m >> i & 1 == 1 { SP } else { AT }).collect()));
        }
    } else {
        for _ in 0..600 {
            v.push(("padding-mix".into(), (0..k).map(|_| if r.bool() { SP } else { AT }).collect()));
        }
        for i in 0..=k {
            v.push(("padding-mix".into(), (0..k).map(|j| if j < i { AT } else { SP }).collect()));
            v.push(("padding-mix".into(), (0..k).map(|j| if j < i { SP } else { AT }).collect()));
        }
        v.push(("padding-mix".into(), (0..k).map(|j| if j % 2 == 0 { SP } else { AT }).collect()));
        v.push(("padding-mix".into(), (0..k).map(|j| if j % 2 == 1 { SP } else { AT }).collect()));
    }
    // one real character on a background of padding, at every position (a field that is "unset"
    // except for its last character, or whose only character has few bits set)
    for pos in 0..k {
        for bg in [AT, SP] {
            for ch in [1u8, 7, 24, 63, 33, if bg == AT { SP } else { AT }] {
                let mut s = vec![bg; k];
                s[pos] = ch;
                v.push(("single-on-padding".into(), s));
            }
        }
    }
    // texts a decoder might recognise: the fixed texts of locating devices (ITU-R M.1371 annex 9),
    // safety signal words and the usual ways of writing "nothing", each cut off after every
    // character, followed by '@' padding, blanks or letters
    for w in DICTIONARY.iter() {
        let codes: Vec<u8> = w.bytes().map(|c| if c >= 64 { c - 64 } else { c }).collect();
        for cut in 1..=codes.len().min(k) {
            for bg in 0..3 {
                let mut s: Vec<u8> = match bg {
                    0 => vec![AT; k],
                    1 => vec![SP; k],
                    _ => letters(r, k),
                };
                s[..cut].copy_from_slice(&codes[..cut]);
                v.push(("dictionary".into(), s));
            }
        }
    }
    for pos in 0..k {
        let mut s = letters(r, k);
        s[pos] = AT;
        v.push(("interior-at-pos".into(), s));
        let mut s = letters(r, k);
        s[pos] = SP;
        v.push(("interior-space-pos".into(), s));
    }
    v
}

fn text_branches() -> Vec<Branch> {
    // safety texts at every length 1..=156 (type 12) and 1..=161 (type 14)
    let mut v = Vec::new();
    for c in 1..=156usize {
        v.push(Branch { t: 12, len: 72 + 6 * c, name: "t12-text", force: &[] });
    }
    for c in 1..=161usize {
        v.push(Branch { t: 14, len: 40 + 6 * c, name: "t14-text", force: &[] });
    }
    v
}

pub fn run(ctx: &Ctx, rep: &mut Report) {
    let mut r = ctx.rng("c13");
    let mut item = 0u64;
    let mut n = 0u64;
    let noalloc = crate::mon::is_noalloc();
    let mut all: Vec<Branch> = gen::BRANCHES.to_vec();
    all.extend(text_branches());
    for b in all.iter() {
        let fs = fields_of(b, &mut r, Some(13));
        for f in &fs {
            if !ctx.mine(item) {
                item += 1;
                continue;
            }
            item += 1;
            let k = (f.width / 6) as usize;
            if k == 0 {
                continue;
            }
            let long = b.name == "t12-text" || b.name == "t14-text";
            if long && noalloc && k > 21 && k % 8 != 0 {
                // beyond the 20-character capacity every length behaves alike: sample
                continue;
            }
            // all 64 values at every character position against random neighbours
            let stride = if long && k > 24 { 7 } else { 1 };
            for pos in (0..k).step_by(stride).chain(std::iter::once(k - 1)) {
                for v in 0..64u8 {
                    let mut bits = fresh(b, &mut r);
                    bits.put(f.start as usize + 6 * pos, 6, v as u64);
                    run_one(rep, b, &bits, &mut n, f, "value-at-position");
                }
            }
            // all 64^2 pairs at (0,1), (k-2,k-1) and a middle pair
            if k >= 2 && (!long || k % 10 == 2 || ctx.thorough()) {
                let mut pairs = vec![(0usize, 1usize), (k - 2, k - 1)];
                if k >= 4 {
                    pairs.push((k / 2 - 1, k / 2));
                }
                for (pa, pb) in pairs {
                    for a in 0..64u8 {
                        for c in 0..64u8 {
                            if !ctx.thorough() && (a as usize * 64 + c as usize) % 3 != 0 && !(a == AT || a == SP || c == AT || c == SP) {
                                continue;
                            }
                            let mut bits = fresh(b, &mut r);
                            bits.put(f.start as usize + 6 * pa, 6, a as u64);
                            bits.put(f.start as usize + 6 * pb, 6, c as u64);
                            run_one(rep, b, &bits, &mut n, f, "pair");
                        }
                    }
                }
            }
            // trim shapes
            if !long || k <= 24 || k % 12 == 0 {
                for (name, chars) in shapes(k, &mut r) {
                    let mut bits = fresh(b, &mut r);
                    put_text(&mut bits, f, &chars);
                    run_one(rep, b, &bits, &mut n, f, &name);
                }
            }
            // random strings: fully random, and letters with padded tails
            for i in 0..ctx.budget(if long { 150 } else { 10_000 }, if long { 3000 } else { 200_000 }) {
                let mut bits = fresh(b, &mut r);
                if i % 2 == 0 {
                    let tail = r.usize(0, k);
                    let chars: Vec<u8> = (0..k).map(|j| if j >= k - tail { *r.pick(&[AT, SP, AT, 63]) } else { r.below(64) as u8 }).collect();
                    put_text(&mut bits, f, &chars);
                }
                run_one(rep, b, &bits, &mut n, f, "random");
            }
        }
    }
    // far beyond the protocol maximum (std / alloc only): texts of hundreds to thousands of
    // characters with runs of identical padding characters whose lengths sit at and next to
    // every power of two up to 131 072 (block sizes, 8/16-bit counters), leading / after one letter /
    // trailing / before one letter, with little or much other text around
    if !noalloc {
        let mut idx2 = 0u64;
        let mut runs: Vec<usize> = vec![600, 1000, 3000];
        for p in 6..=17u32 {
            let q = 1usize << p;
            runs.extend_from_slice(&[q - 1, q, q + 1]);
        }
        for t in [12u8, 14] {
            let hdr = if t == 12 { 72 } else { 40 };
            for &run in &runs {
                for pad in [AT, SP, 63u8] {
                    for extra in [1usize, 2, 7, 300] {
                        if !ctx.mine(idx2) {
                            idx2 += 1;
                            continue;
                        }
                        idx2 += 1;
                        if run > 1100 && !ctx.thorough() && extra == 7 {
                            continue;
                        }
                        let total = run + extra;
                        let b = Branch { t, len: hdr + 6 * total, name: "long-run-text", force: &[] };
                        let mut starts = vec![0usize, total - run];
                        if extra >= 2 {
                            starts.push(1);
                            starts.push(total - run - 1);
                        }
                        for start in starts {
                            let mut bits = fresh(&b, &mut r);
                            for i in 0..total {
                                let v = if i >= start && i < start + run { pad } else { 1 + (i % 26) as u8 };
                                bits.put(hdr + 6 * i, 6, v as u64);
                            }
                            n += 1;
                            rep.class(format!("t{}|long-run|pad{}|run{}|{}", t, pad, run, if start == 0 { "leading" } else if start + run == total { "trailing" } else { "inner" }));
                            // armored text route and whole-line route (a raw buffer is the same bits)
                            gen::run_message(rep, PID, Some(13), &bits, if n % 2 == 0 { gen::Via::Armor } else { gen::Via::Line }, b.name);
                        }
                    }
                }
            }
        }
    }
    super::c14::giant_buffer_probe(ctx, rep, PID, gen::pm(&[13]), &mut r);
    super::c04::corner_sampler(ctx, rep, PID, 13, &mut r, 20_000, 400_000);
    super::c14::wrap_probe(ctx, rep, PID, crate::gen::pm(&[13]), &mut r);
    rep.require("decoded");
    rep.sample(3, || {
        let mut o = J::obj();
        o.set("case", J::s("type 24 part A name with 6-bit codes for \"AB@ @\" + padding"));
        o.set("expected", J::s("\"AB@\" (leading spaces, then trailing '@', then trailing spaces stripped)"));
        o
    });
}
