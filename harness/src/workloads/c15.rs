//! C15 — binary application payloads are passed through bit-exactly.
//! Oracle: the slice of the (reference-)unarmored buffer after the fixed header, and the
//! header fields at their ITU positions.

use super::common::*;
use crate::bits::Bits;
use crate::decode_ref::decode_ref;
use crate::gen::{self, Via};
use crate::json::J;
use crate::mon::{self, Call, Ctx, MsgCall, Parser, Report};
use crate::nmea_ref;
use crate::observe::Outcome;
use crate::rng::Rng;

const PID: &str = "C15";

fn header_bits(t: u8) -> usize {
    match t {
        6 => 88,
        8 => 56,
        _ => 120,
    }
}

fn content(kind: usize, l: usize, hdr: usize, r: &mut Rng) -> Bits {
    let mut bits = Bits::random(l, r);
    let body = l.saturating_sub(hdr);
    match kind {
        0 => {
            // position-coded bytes: byte i = i, so a dropped / duplicated / shifted byte shows
            for i in 0..(body + 7) / 8 {
                bits.put(hdr + 8 * i, 8, (i as u64 + 1) & 0xff);
            }
        }
        1 => {
            for i in hdr..l {
                bits.set(i, 1);
            }
        }
        2 => {
            for i in hdr..l {
                bits.set(i, (i % 2) as u8);
            }
        }
        _ => {}
    }
    bits
}

/// full multi-fragment route: split the armored payload into 2..4 sentences
fn via_fragments(rep: &mut Report, r: &mut Rng, bits: &Bits, mask: u32, name: &str) {
    let (chars, fill, view) = gen::armored_view(bits);
    if chars.len() < 4 {
        return;
    }
    if mon::is_noalloc() && chars.len() > 384 {
        return;
    }
    let parts = r.usize(2, 4);
    let mut cuts: Vec<usize> = Vec::new();
    while cuts.len() < parts - 1 {
        let c = r.usize(1, chars.len() - 1);
        if !cuts.contains(&c) {
            cuts.push(c);
        }
    }
    cuts.sort();
    cuts.push(chars.len());
    let mut p = Parser::new();
    let mut log = Vec::new();
    let mut prev = 0;
    let n = cuts.len() as u8;
    let mut last = None;
    for (j, c) in cuts.iter().enumerate() {
        let f = if j + 1 == n as usize { fill } else { 0 };
        let line = nmea_ref::mk(n, (j + 1) as u8, Some(2), &chars[prev..*c], f);
        prev = *c;
        last = Some(p.parse(&line, true));
        log.push((line, true));
    }
    rep.eval();
    let call = match last {
        Some(Call::Done(Outcome::Complete(s))) => match (s.message, s.message_debug) {
            (Some(m), Some(d)) => MsgCall::Ok(m, d),
            _ => MsgCall::Err,
        },
        Some(Call::Panic(pi)) => MsgCall::Panic(pi),
        _ => MsgCall::Err,
    };
    let v = gen::judge(&view, &call);
    for m in &v.mismatches {
        if m.prop <= 1 || (mask >> m.prop) & 1 == 1 {
            rep.violation(PID, format!("t{}:{}:fragments", view.uint(0, 6), m.key), format!("{} via {} fragments: field {} expected {} observed {}", name, n, m.key, m.expected, m.observed), || mon::replay_history(&log, name));
            break;
        }
    }
    rep.class(format!("t{}|fragments={}|{}", view.uint(0, 6), n, v.outcome));
}

pub fn run(ctx: &Ctx, rep: &mut Report) {
    let mut r = ctx.rng("c15");
    let mask = gen::pm(&[4, 15]);
    let mut item = 0u64;
    for (t, maxl) in [(6u8, 1100usize), (8, 1100), (17, 1020)] {
        let hdr = header_bits(t);
        // every transmitted length from below the header to beyond the protocol maximum:
        // steps of one bit give every (characters, fill) pair
        for l in (hdr - 16)..=maxl {
            if !ctx.mine(item) {
                item += 1;
                continue;
            }
            item += 1;
            let kinds = if ctx.thorough() { 32 } else { 12 };
            for kind in 0..kinds {
                let mut bits = content(kind % 4, l, hdr, &mut r);
                bits.put(0, 6, t as u64);
                let via = [Via::Armor, Via::Line, Via::Armor, Via::Raw][(kind + l) % 4];
                let v = gen::run_message_mask(rep, PID, mask, &bits, via, "length-sweep");
                let datalen = match &v.refout {
                    crate::val::RefOut::Msg(m) => m.caps.data_len as i64,
                    _ => -1,
                };
                let n = (l + 5) / 6;
                rep.class(format!("t{}|data={}|fill={}|content={}|{}", t, datalen, n * 6 - l, kind % 4, v.outcome));
                rep.count(v.outcome);
                if kind == 0 && l % 5 == 0 {
                    via_fragments(rep, &mut r, &bits, mask, "length-sweep");
                }
                if kind == 1 && l % 3 == 0 && !(mon::is_noalloc() && l > 384 * 6) {
                    // the same through a dressed group (per-line presentation, inert lines between)
                    gen::run_message_mask(rep, PID, mask, &bits, Via::Group, "length-sweep-group");
                }
            }
        }
        // application identifiers that exist: the registered designated area codes (0 test, 1
        // international / IMO, 200 inland waterways, 235 UK, 250 Ireland, 265 Sweden, 316 Canada,
        // 366 / 367 USA, 1023 top) x every function id, with payloads of the sizes those
        // applications use and a little more, whose last byte(s) are zero, whose first bytes are zero,
        // or which are all zero: the payload is opaque - no byte may be dropped or re-interpreted
        if t != 17 && ctx.mine(item) {
            let (dac_at, fid_at) = if t == 6 { (72usize, 82usize) } else { (40usize, 50usize) };
            for dac in [0u64, 1, 200, 235, 250, 265, 316, 366, 367, 1023] {
                for fid in 0..64u64 {
                    for bytes in [0usize, 1, 8, 17, 18, 19, 20, 21, 22, 23, 31, 60] {
                        for kind in 0..4 {
                            let l = hdr + 8 * bytes;
                            let mut bits = content(0, l, hdr, &mut r);
                            bits.put(0, 6, t as u64);
                            bits.put(dac_at, 10, dac);
                            bits.put(fid_at, 6, fid);
                            match kind {
                                0 => bits.put(l.saturating_sub(8).max(hdr), (l - hdr).min(8), 0),
                                1 => bits.put(l.saturating_sub(24).max(hdr), (l - hdr).min(24), 0),
                                2 => bits.put(hdr, (l - hdr).min(16), 0),
                                _ => {
                                    for i in hdr..l {
                                        bits.set(i, 0);
                                    }
                                }
                            }
                            let via = [Via::Raw, Via::Armor, Via::Direct, Via::Line][(fid as usize + bytes + kind) % 4];
                            gen::run_message_mask(rep, PID, mask, &bits, via, "application-identifier");
                        }
                    }
                }
                rep.class(format!("t{}|application-identifier|dac{}", t, dac));
            }
        }
        item += 1;
        // record-structured payloads: a few random bytes, then 3 .. 14 records of 2 / 3 / 4 / 6 / 8 / 12
        // bytes drawn with repetition from a pool of two random records, the all-zero and the
        // all-one record (tables of identical entries, the same entry again after empty ones):
        // block-wise unpacking with short cuts for zero or repeated blocks must still deliver
        // every byte. The leading bytes move the records through every alignment.
        for ri in 0..ctx.budget(6_000, 120_000) {
            if !ctx.mine(item + ri % 16) {
                continue;
            }
            let rl = *r.pick(&[2usize, 3, 4, 6, 6, 6, 8, 12]);
            let pool: Vec<Vec<u8>> = vec![r.bytes(rl), r.bytes(rl), vec![0u8; rl], vec![0xff; rl]];
            let lead = r.usize(0, 11);
            let nrec = r.usize(3, 14);
            let mut data: Vec<u8> = r.bytes(lead);
            let mut prev = 0usize;
            for i in 0..nrec {
                // patterns W 0 W, W W, W 0 0 W ... come up often: repeat the record before the last one
                let pick = if i >= 2 && r.chance(1, 3) { prev } else { r.usize(0, 3) };
                if i % 2 == 0 {
                    prev = pick;
                }
                data.extend_from_slice(&pool[pick]);
            }
            let maxdata = if mon::is_noalloc() { 119 } else { 400 };
            data.truncate(maxdata);
            let l = hdr + 8 * data.len();
            let mut bits = Bits::random(l, &mut r);
            bits.put(0, 6, t as u64);
            for (i, byte) in data.iter().enumerate() {
                bits.put(hdr + 8 * i, 8, *byte as u64);
            }
            let via = [Via::Armor, Via::Line, Via::Armor, Via::Group][(ri % 4) as usize];
            if mon::is_noalloc() && (l + 5) / 6 > 380 {
                continue;
            }
            gen::run_message_mask(rep, PID, mask, &bits, via, "records");
            if ri % 64 == 0 {
                rep.class(format!("t{}|records|len{}|lead{}", t, rl, lead % 6));
            }
        }
        item += 16;
        // header field sweeps: every value of every header field (dac 2^10, fid 2^6, ...)
        let base = {
            let mut b = Bits::random(hdr + 64, &mut r);
            b.put(0, 6, t as u64);
            b
        };
        let fields = match decode_ref(&Bits::from_bytes(&base.to_bytes())) {
            crate::val::RefOut::Msg(m) => m.f,
            _ => vec![],
        };
        for f in fields.iter().filter(|f| f.prop == 4 && f.width > 0 && f.start >= 38) {
            if !ctx.mine(item) {
                item += 1;
                continue;
            }
            item += 1;
            for val in super::c04::sweep_values(f.width as usize, &mut r, 13, 256) {
                let mut bits = Bits::random(hdr + 8 * r.usize(0, 40), &mut r);
                bits.put(0, 6, t as u64);
                bits.put(f.start as usize, f.width as usize, val);
                rep.class(format!("t{}|header|{}", t, f.key));
                gen::run_message_mask(rep, PID, mask, &bits, Via::Raw, "header-sweep");
            }
        }
    }
    // echo tails: a binary message P is decoded as an unfragmented sentence; directly afterwards
    // (or after an inert line) a two-fragment group arrives whose final fragment carries exactly
    // the characters and fill count of P behind another opener X. What is delivered is the message
    // X+P - its own application identifier and every byte of X and P - not a second copy of P
    // (a relayed message quoted inside a longer one; caches keyed by the last payload)
    for ei in 0..ctx.budget(4_000, 60_000) {
        if !ctx.mine(ei) {
            continue;
        }
        let t1 = *r.pick(&[6u8, 8, 8]);
        let h1 = header_bits(t1);
        let mut m1 = content(r.usize(0, 3), h1 + 8 * r.usize(0, 24), h1, &mut r);
        m1.put(0, 6, t1 as u64);
        let (pchars, pfill, _) = gen::armored_view(&m1);
        let t2 = *r.pick(&[8u8, 6, 8, 17]);
        let nx = r.usize(header_bits(t2) / 6 + 1, header_bits(t2) / 6 + 20);
        let mut xb = Bits::random(6 * nx, &mut r);
        xb.put(0, 6, t2 as u64);
        let (xchars, _, _) = gen::armored_view(&xb);
        let mut chars2 = xchars.clone();
        chars2.extend_from_slice(&pchars);
        let view2 = match crate::armor::unarmor_ref(&chars2, pfill as usize) {
            Some(v) => Bits::from_bytes(&v),
            None => continue,
        };
        let id = Some((ei % 10) as u8);
        let mut p = Parser::new();
        let mut log: Vec<(Vec<u8>, bool)> = Vec::new();
        let mut lines: Vec<(Vec<u8>, bool)> = vec![(nmea_ref::mk(1, 1, None, &pchars, pfill), true)];
        if ei % 3 == 1 {
            lines.push((b"$GPZDA,000000,01,01,2000,00,00*4C".to_vec(), true));
        }
        lines.push((nmea_ref::mk(2, 1, id, &xchars, 0), ei % 2 == 0));
        lines.push((nmea_ref::mk(2, 2, id, &pchars, pfill), true));
        let mut last = None;
        for (l, d) in lines {
            last = Some(p.parse(&l, d));
            log.push((l, d));
        }
        rep.eval();
        let call = match last {
            Some(Call::Done(Outcome::Complete(sn))) => match (sn.message, sn.message_debug) {
                (Some(m), Some(d)) => MsgCall::Ok(m, d),
                _ => MsgCall::Err,
            },
            Some(Call::Panic(pi)) => MsgCall::Panic(pi),
            _ => MsgCall::Err,
        };
        let v = gen::judge(&view2, &call);
        for m in &v.mismatches {
            if m.prop <= 1 || m.prop == 9 || (mask >> m.prop) & 1 == 1 {
                rep.violation(PID, format!("t{}:{}:echo-tail", view2.uint(0, 6), m.key), format!("group X+P after P was decoded on its own: field {} expected {} observed {}", m.key, m.expected, m.observed), || mon::replay_history(&log, "echo-tail"));
                break;
            }
        }
        if ei % 32 == 0 {
            rep.class(format!("echo-tail|t{}-after-t{}|{}", t2, t1, v.outcome));
        }
    }
    // repository binary vectors with random tails appended / removed
    for p in nmea_ref::PAYLOADS.iter().filter(|p| matches!(p[0], b'6' | b'8' | b'A')) {
        for _ in 0..ctx.budget(50, 2000) {
            let mut chars = p.to_vec();
            let extra = r.usize(0, 30);
            chars.extend(armor_chars(&mut r, extra));
            let fill = r.below(6) as usize;
            if let Some(view) = crate::armor::unarmored_bits(&chars, fill) {
                rep.eval();
                let call = match mon::call_unarmor(&chars, fill) {
                    Ok(Some(buf)) => mon::call_message(&buf),
                    Ok(None) => MsgCall::Err,
                    Err(pi) => MsgCall::Panic(pi),
                };
                let v = gen::judge(&view, &call);
                for m in &v.mismatches {
                    if m.prop <= 1 || (mask >> m.prop) & 1 == 1 {
                        rep.violation(PID, format!("t{}:{}", view.uint(0, 6), m.key), format!("repository vector + tail: field {} expected {} observed {}", m.key, m.expected, m.observed), || mon::replay_unarmor(&chars, fill, "repo-vector"));
                        break;
                    }
                }
                rep.class(format!("repo|t{}|{}", view.uint(0, 6), v.outcome));
            }
        }
    }
    rep.require("ok");
    rep.require("err");
    rep.extra.insert("exhaustive_lengths".into(), J::Bool(true));
    rep.sample(3, || {
        let mut o = J::obj();
        o.set("case", J::s("type 8, 56-bit header + position-coded bytes 01 02 03 ... , every length x fill"));
        o.set("expected", J::s("data == unarmored buffer[7..]"));
        o
    });
}
