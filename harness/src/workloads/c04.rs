//! C04 — every fixed-position field decodes to the transmitted value.
//! Oracle: `decode_ref` (fields at ITU positions). Sweeps are derived from the field list the
//! reference reports for each layout branch; expectations are recomputed from the actual
//! bit string of every case, so generated, mutated and random messages share one oracle.

use crate::bits::Bits;
use crate::decode_ref::decode_ref;
use crate::gen::{self, Branch, Via};
use crate::json::J;
use crate::mon::{Ctx, Report};
use crate::rng::Rng;
use crate::val::*;

const PID: &str = "C04";

pub fn fresh(b: &Branch, r: &mut Rng) -> Bits {
    gen::gen_message(b, r)
}

/// the reference's field list for this branch (positions are content-independent within a branch)
pub fn fields_of(b: &Branch, r: &mut Rng, prop: Option<Prop>) -> Vec<ExpF> {
    let bits = fresh(b, r);
    let view = Bits::from_bytes(&bits.to_bytes());
    match decode_ref(&view) {
        RefOut::Msg(m) => m.f.into_iter().filter(|f| f.width > 0 && (f.start + f.width) as usize <= b.len && prop.map_or(true, |p| f.prop == p)).collect(),
        _ => Vec::new(),
    }
}

/// values of a field that a maintainer might treat specially: extremes, the 'not available' code
/// and its neighbours, the other resolution's code, and the values the ITU text singles out
pub fn notable_values(key: &str, width: usize) -> Vec<u64> {
    if width == 0 || width > 40 {
        return Vec::new();
    }
    let max = (1u64 << width) - 1;
    let mut v: Vec<u64> = vec![0, 1, max, max - 1, max / 2, max / 2 + 1];
    if let Some(s) = super::c11::sentinel_of(key, width) {
        v.extend_from_slice(&[s, s.wrapping_sub(1) & max, (s + 1) & max]);
    }
    let extra: &[u64] = match key {
        "year" => &[2024, 9999],
        "month" | "eta_month_utc" => &[2, 6, 12, 13],
        "day" | "eta_day_utc" => &[28, 29, 30, 31],
        "hour" | "eta_hour_utc" => &[12, 23, 24, 25],
        "minute" | "second" | "eta_minute_utc" | "timestamp" | "utc_second" => &[59, 60, 61, 62, 63],
        "speed_over_ground" => &[1022, 1023, 62, 63, 1000],
        "course_over_ground" => &[3599, 3600, 3601, 359, 360, 511],
        "true_heading" => &[359, 360, 361, 511, 510],
        "rate_of_turn" => &[0x7e, 0x7f, 0x80, 0x81, 0x82, 0xff],
        "navigation_status" => &[14, 15, 8, 9],
        "altitude" => &[4094, 4095],
        "ship_type" | "ship_and_cargo_type" => &[30, 36, 37, 52, 99, 100],
        _ => &[],
    };
    for e in extra {
        if *e <= max {
            v.push(*e);
        }
    }
    if key == "longitude" || key == "latitude" {
        // the 'not available' codes of the whole coordinate family, shifted by up to two places
        // either way, truncated to this width, and negated: what a packed or swapped constant
        // of two adjacent coordinate fields leaves in each of them
        for base in [108_600_000u64, 54_600_000, 108_600, 54_600] {
            for sh in 0..=2u32 {
                for x in [base << sh, base >> sh] {
                    v.push(x & max);
                    v.push(x.wrapping_neg() & max);
                }
            }
        }
    }
    if key == "longitude" || key == "latitude" {
        // 181 / 91 / 180 / 90 degrees written in every unit a table might use (degrees, 1/10,
        // minutes, 1/100, 1/10 minute, 1/1000 ... 1/10000 minute)
        for deg in [181u64, 91, 180, 90] {
            for scale in [1u64, 10, 60, 100, 600, 1000, 6000, 10_000, 60_000, 100_000, 600_000] {
                let x = deg * scale;
                v.push(x & max);
                v.push(x.wrapping_neg() & max);
            }
        }
    }
    if width == 30 && (key.contains("mmsi") || key.contains("station")) {
        v.extend(gen::SPECIAL_MMSI.iter().map(|m| *m as u64));
    }
    v.sort();
    v.dedup();
    v
}

/// a message of branch `b` whose 30-bit fields (sender, addressees, interrogated and assigned
/// stations ...) all come from a small pool: consecutive messages built this way refer to one
/// another the way the messages of a real exchange do (inquiry -> response, addressed -> acknowledge)
pub fn fresh_with_pool(b: &Branch, r: &mut Rng, pool: &[u64]) -> Bits {
    let mut bits = fresh(b, r);
    for f in fields_of(b, r, None) {
        if f.width == 30 && f.start >= 8 {
            bits.put(f.start as usize, 30, *r.pick(pool));
        }
    }
    for (s, w, v) in b.force {
        bits.put(*s, *w, *v);
    }
    bits
}

/// dates with a meaning of their own in time keeping: Unix and GPS epochs, GPS week roll-overs,
/// the turn of the millennium and its leap day, the end of 32-bit Unix time
pub const EPOCH_DATES: [(u64, u64, u64); 10] = [(1970, 1, 1), (1980, 1, 6), (1999, 8, 21), (1999, 8, 22), (1999, 12, 31), (2000, 1, 1), (2000, 2, 29), (2019, 4, 6), (2019, 4, 7), (2038, 1, 19)];

/// one of the few values every field has: 0, 1, both extremes, mid-range, own sentinel +- 1
pub fn core_value(key: &str, width: usize, r: &mut Rng) -> u64 {
    let max = if width >= 64 { u64::MAX } else { (1u64 << width) - 1 };
    let mut v: Vec<u64> = vec![0, 0, 1, max, max - 1, max / 2, max / 2 + 1];
    if let Some(s) = super::c11::sentinel_of(key, width) {
        v.extend_from_slice(&[s, s, s.wrapping_sub(1) & max, (s + 1) & max]);
    }
    *r.pick(&v)
}

/// Corner sampler shared by the message-level checks: every field of a branch independently
/// takes one of its notable values (3 in 4) or a random value; any coupling between a handful of
/// fields at notable values is met many times over. `prop`: the property whose fields are owned.
pub fn corner_sampler(ctx: &Ctx, rep: &mut Report, pid: &str, prop: Prop, r: &mut Rng, quick: u64, thorough: u64) {
    let mut n = 0u64;
    for (bi, b) in gen::BRANCHES.iter().enumerate() {
        if !ctx.mine(bi as u64) {
            continue;
        }
        let fs = fields_of(b, r, None);
        let notables: Vec<Vec<u64>> = fs.iter().map(|f| notable_values(f.key, f.width as usize)).collect();
        // text fields: the trim shapes of C13 (padding runs, order-sensitive tails, blank-then-'@')
        let texts: Vec<Vec<(String, Vec<u8>)>> = fs.iter().map(|f| if f.prop == 13 && f.width >= 6 && f.width <= 6 * 40 { super::c13::shapes((f.width / 6) as usize, r) } else { Vec::new() }).collect();
        if !fs.iter().any(|f| f.prop == prop) {
            continue;
        }
        for _ in 0..ctx.budget(quick, thorough) {
            let mut bits = fresh(b, r);
            for (f, sh) in fs.iter().zip(texts.iter()) {
                if !sh.is_empty() && r.chance(3, 4) {
                    let (_, chars) = r.pick(sh);
                    for (i, c) in chars.iter().enumerate() {
                        bits.put(f.start as usize + 6 * i, 6, *c as u64);
                    }
                }
            }
            for (f, nv) in fs.iter().zip(notables.iter()) {
                if f.start < 6 || nv.is_empty() {
                    continue;
                }
                if r.chance(3, 4) {
                    // half of the notable picks come from the short core list (0, 1, extremes, the
                    // field's own sentinel and neighbours), so that corners of several wide fields
                    // are met together even though their full lists are long
                    let v = if r.bool() && nv.len() > 12 { core_value(f.key, f.width as usize, r) } else { *r.pick(nv) };
                    bits.put(f.start as usize, f.width as usize, v);
                }
            }
            // one sample in eight carries a well-known date in its year / month / day fields
            if r.chance(1, 8) {
                let find = |k: &str| fs.iter().find(|f| f.key == k);
                if let (Some(y), Some(m), Some(d)) = (find("year"), find("month"), find("day")) {
                    let (yy, mm, dd) = *r.pick(&EPOCH_DATES);
                    bits.put(y.start as usize, y.width as usize, yy);
                    bits.put(m.start as usize, m.width as usize, mm);
                    bits.put(d.start as usize, d.width as usize, dd);
                }
            }
            for (s, w, v) in b.force {
                bits.put(*s, *w, *v);
            }
            n += 1;
            gen::run_message(rep, pid, Some(prop), &bits, via_for(n), b.name);
            rep.count("corner-samples");
        }
        rep.class(format!("{}|corner-sampler", b.name));
    }
}

pub fn via_for(i: u64) -> Via {
    if i % 8 == 7 {
        return Via::Group;
    }
    if i % 8 == 5 {
        return Via::Direct;
    }
    match i % 4 {
        0 | 1 => Via::Raw,
        2 => Via::Armor,
        _ => Via::Line,
    }
}

fn stratum(width: usize, v: u64) -> &'static str {
    let max = if width >= 64 { u64::MAX } else { (1u64 << width) - 1 };
    if v == 0 {
        "zero"
    } else if v == max {
        "all-ones"
    } else if v.count_ones() == 1 {
        "single-bit"
    } else if v == max - 1 || v == 1 {
        "edge"
    } else if width > 1 && v >> (width - 1) == 1 {
        "high"
    } else {
        "low"
    }
}

/// values to put into a field of `width` bits
pub fn sweep_values(width: usize, r: &mut Rng, exhaustive_upto: usize, randoms: usize) -> Vec<u64> {
    let max = if width >= 64 { u64::MAX } else { (1u64 << width) - 1 };
    if width <= exhaustive_upto {
        return (0..=max).collect();
    }
    let mut v = vec![0, 1, max, max - 1];
    for i in 0..width {
        v.push(1u64 << i); // single bit
        v.push(max >> i); // suffix ones
        v.push(max & !(max >> i)); // prefix ones
        v.push(max ^ (1u64 << i)); // single zero
    }
    for _ in 0..randoms {
        v.push(r.bits(width as u32));
    }
    v
}

fn one(rep: &mut Report, b: &Branch, bits: &Bits, via: Via, field: &str, strat: &str) {
    rep.class(format!("{}|{}|{}|{:?}", b.name, field, strat, via));
    let v = gen::run_message(rep, PID, Some(4), bits, via, b.name);
    rep.count(match v.outcome {
        "ok" => "decoded",
        "err" => "rejected",
        _ => "panicked",
    });
}

pub fn run(ctx: &Ctx, rep: &mut Report) {
    let mut r = ctx.rng("c04");
    let mut item = 0u64;
    let mut n = 0u64;
    let noalloc = crate::mon::is_noalloc();
    for b in gen::BRANCHES.iter() {
        let _ = noalloc;
        let fields = fields_of(b, &mut r, Some(4));
        // also OU fields that belong to C11 carry plain values when present: covered by C11
        // (i) per-field sweeps
        for f in &fields {
            if !ctx.mine(item) {
                item += 1;
                continue;
            }
            item += 1;
            let (ex, rnd) = if ctx.thorough() { (16, 4096) } else { (12, 512) };
            for val in sweep_values(f.width as usize, &mut r, ex, rnd) {
                let mut bits = fresh(b, &mut r);
                bits.put(f.start as usize, f.width as usize, val);
                // the swept field may overlap the branch selector: that is fine, the
                // reference recomputes the expectation from the bits
                n += 1;
                one(rep, b, &bits, via_for(n), f.key, stratum(f.width as usize, val));
            }
        }
        // (iii) adjacent-pair corner sweeps
        let mut sorted = fields.clone();
        sorted.sort_by_key(|f| f.start);
        for w in sorted.windows(2) {
            if !ctx.mine(item) {
                item += 1;
                continue;
            }
            item += 1;
            let (a, c) = (&w[0], &w[1]);
            let corners = |width: usize| -> [u64; 4] {
                let max = if width >= 64 { u64::MAX } else { (1u64 << width) - 1 };
                [0, 1, max.saturating_sub(1).max(0), max]
            };
            for va in corners(a.width as usize) {
                for vc in corners(c.width as usize) {
                    let mut bits = fresh(b, &mut r);
                    bits.put(a.start as usize, a.width as usize, va);
                    bits.put(c.start as usize, c.width as usize, vc);
                    n += 1;
                    one(rep, b, &bits, via_for(n), a.key, "pair-corner");
                }
            }
        }
        // (iii-b) every pair of fields of equal width carrying the same value (two identifiers
        // that happen to be equal, an offset equal to an increment ...): each field must
        // still be reported on its own
        if ctx.mine(item) {
            for (ai, a) in fields.iter().enumerate() {
                for c in fields.iter().skip(ai + 1) {
                    if a.width != c.width || a.width < 6 {
                        continue;
                    }
                    for k in 0..4u64 {
                        let mut bits = fresh(b, &mut r);
                        let v = match k {
                            0 => bits.uint(a.start as usize, a.width as usize),
                            1 => 999_999_999 & ((1u64 << a.width) - 1),
                            2 => 1,
                            _ => r.bits(a.width as u32),
                        };
                        bits.put(a.start as usize, a.width as usize, v);
                        bits.put(c.start as usize, c.width as usize, v);
                        n += 1;
                        one(rep, b, &bits, via_for(n), a.key, "equal-pair");
                    }
                }
            }
        }
        // (ii) joint random assignments
        if ctx.mine(item) {
            for _ in 0..ctx.budget(6000, 150_000) {
                let bits = fresh(b, &mut r);
                n += 1;
                one(rep, b, &bits, via_for(n), "*", "joint-random");
            }
            // all-zero and all-one bodies
            for fillv in [0u8, 1u8] {
                let mut bits = if fillv == 0 { Bits::zeros(b.len) } else { Bits::ones(b.len) };
                bits.put(0, 6, b.t as u64);
                for (s, w, v) in b.force {
                    bits.put(*s, *w, *v);
                }
                one(rep, b, &bits, Via::Raw, "*", if fillv == 0 { "all-zero" } else { "all-one" });
            }
        }
        item += 1;
    }
    // (iv) repository vectors with each reference field overwritten
    for (pi, p) in crate::nmea_ref::PAYLOADS.iter().enumerate() {
        if !ctx.mine(item) {
            item += 1;
            continue;
        }
        item += 1;
        let base = match crate::armor::unarmored_bits(p, 0) {
            Some(b) => b,
            None => continue,
        };
        let fl = match decode_ref(&base) {
            RefOut::Msg(m) => m.f,
            _ => continue,
        };
        let t = base.uint(0, 6) as u8;
        let br = Branch { t, len: base.len(), name: "repo-vector", force: &[] };
        for f in fl.iter().filter(|f| f.prop == 4 && f.width > 0) {
            for val in sweep_values(f.width as usize, &mut r, 6, 8) {
                let mut bits = base.clone();
                bits.put(f.start as usize, f.width as usize, val);
                rep.class(format!("repo{}|{}", pi, f.key));
                let v = gen::run_message(rep, PID, Some(4), &bits, Via::Raw, br.name);
                rep.count(match v.outcome {
                    "ok" => "decoded",
                    "err" => "rejected",
                    _ => "panicked",
                });
            }
        }
    }
    // joint sweeps of the date / time blocks: every value of the 20 bits month-day-hour-minute
    // (ETA of type 5, UTC of types 4 and 11) and of the 17 bits hour-minute-second, in changing
    // random contexts - the fields of such a block are read next to each other and invite a
    // combined "nothing entered" test that a field-by-field sweep never meets
    {
        for (bname, start, width) in [("t5-full", 274usize, 20usize), ("t4", 52, 20), ("t4", 61, 17), ("t11", 52, 20), ("t11", 61, 17)] {
            let b = gen::BRANCHES.iter().find(|b| b.name == bname).expect("branch");
            let mut bits = fresh(b, &mut r);
            for v in 0..(1u64 << width) {
                if (v / 1024) % ctx.nshards != ctx.shard {
                    continue;
                }
                if !ctx.thorough() && bname != "t5-full" && (v / 1024) % 4 != 0 && width == 20 {
                    // quick tier: the UTC month-to-minute block of types 4 / 11 is swept in every fourth
                    // block of 1024 values (all hours and minutes, months 0, 4, 8, 12) - the ETA block fully
                    continue;
                }
                if v % 32 == 0 {
                    bits = fresh(b, &mut r);
                }
                bits.put(start, width, v);
                n += 1;
                let via = if n % 16 == 5 { Via::Line } else if n % 16 == 11 { Via::Armor } else { Via::Raw };
                let vd = gen::run_message(rep, PID, Some(4), &bits, via, b.name);
                rep.count(match vd.outcome {
                    "ok" => "decoded",
                    "err" => "rejected",
                    _ => "panicked",
                });
            }
            rep.class(format!("{}|joint-date-time-block|bits{}+{}", bname, start, width));
        }
    }
    corner_sampler(ctx, rep, PID, 4, &mut r, 20_000, 400_000);
    super::c14::wrap_probe(ctx, rep, PID, crate::gen::pm(&[4]), &mut r);
    super::c14::giant_buffer_probe(ctx, rep, PID, crate::gen::pm(&[4]), &mut r);
    rep.require("decoded");
    rep.sample(4, || {
        let b = &gen::BRANCHES[0];
        let mut rr = Rng::new(ctx.seed);
        let bits = fresh(b, &mut rr);
        let mut o = J::obj();
        o.set("branch", J::s(b.name));
        o.set("armored", J::bytes(&bits.to_armor().0));
        o.set("mmsi_at_bits_8_30", J::i(bits.uint(8, 30)));
        o
    });
}
