//! C03 — unarmoring is the exact 6-bit unpacking with fill bits cleared.
//! Oracle: `armor::unarmor_ref`. Refuting event: any difference in length or bits, an Ok
//! for a string with a byte outside the alphabet, an Err for a string inside it.

use crate::armor::{self, unarmor_ref};
use crate::json::J;
use crate::mon::{self, Ctx, Report};

const PID: &str = "C03";

fn last_class(s: &[u8]) -> &'static str {
    match s.last() {
        None => "empty",
        Some(c) => match armor::val(*c) {
            Some(0) => "zero",
            Some(63) => "ones",
            Some(_) => "valid",
            None => "invalid",
        },
    }
}

pub fn check(rep: &mut Report, s: &[u8], fill: usize, note: &str) {
    rep.eval();
    let exp = unarmor_ref(s, fill);
    let bytecount = (s.len() * 6 + 7) / 8;
    let inv = s.iter().position(|c| armor::val(*c).is_none());
    let invclass = match inv {
        None => "none",
        Some(0) => "first",
        Some(i) if i + 1 == s.len() => "last",
        Some(_) => "middle",
    };
    rep.class(format!("len%4={} fill={} invalid={} last={} long={}", s.len() % 4, fill, invclass, last_class(s), (s.len() > 512) as u8));
    match mon::call_unarmor(s, fill) {
        Err(p) => {
            rep.violation(
                PID,
                format!("panic@{}", p.loc),
                format!("unarmor({:?}, {}) panicked: '{}' at {}", crate::json::esc_bytes(s), fill, p.msg, p.loc),
                || mon::replay_unarmor(s, fill, note),
            );
        }
        Ok(got) => {
            if mon::is_noalloc() && bytecount > 384 {
                // beyond the fixed capacity of the no-allocator build: must be an error,
                // never a truncated value (C18's rule; counted here)
                rep.count("over_capacity");
                if got.is_some() {
                    rep.violation(
                        PID,
                        "noalloc-over-capacity-ok".into(),
                        format!("{} characters unarmored to Some(..) in the no-allocator build", s.len()),
                        || mon::replay_unarmor(s, fill, note),
                    );
                }
                return;
            }
            rep.count(if exp.is_some() { "expect_ok" } else { "expect_err" });
            if got != exp {
                let sig = match (&exp, &got) {
                    (Some(_), None) => "valid-rejected",
                    (None, Some(_)) => "invalid-accepted",
                    _ => "wrong-bits",
                };
                rep.violation(
                    PID,
                    sig.into(),
                    format!(
                        "unarmor({:?}, fill {}): expected {:?} observed {:?}",
                        crate::json::esc_bytes(s),
                        fill,
                        exp.as_ref().map(|v| crate::json::hex_str(v)),
                        got.as_ref().map(|v| crate::json::hex_str(v))
                    ),
                    || mon::replay_unarmor(s, fill, note),
                );
            }
        }
    }
    rep.sample(6, || {
        let mut o = J::obj();
        o.set("input", J::bytes(&s[..s.len().min(40)]));
        o.set("len", J::i(s.len() as u64));
        o.set("fill", J::i(fill as u64));
        o.set("expected", match &exp { Some(v) => J::hex(&v[..v.len().min(32)]), None => J::s("Err") });
        o
    });
}

/// `unarmor` on `n` characters 'w' (n a multiple of 4 plus 2 is fine: fill 0, trailing bits ones).
/// `judge_value`: also compare length and content (C03); otherwise only a panic counts (C01).
pub fn big_unarmor_probe(rep: &mut Report, pid: &str, n: usize, judge_value: bool) {
    let s = vec![b'w'; n];
    rep.eval();
    rep.class(format!("unarmor of {} characters 'w'", n));
    let what = format!("vec![b'w'; {}], fill 0", n);
    let want_len = (n * 6 + 7) / 8;
    mon::allow(n);
    match mon::guard(|| ais::messages::unarmor(&s, 0).ok().map(|v| (v.len(), v[..v.len() - 1].iter().position(|b| *b != 0xff)))) {
        Err(p) => rep.violation(pid, format!("panic@{}", p.loc), format!("unarmor of {} characters panicked: '{}' at {}", n, p.msg, p.loc), || J::s(&what)),
        Ok(None) => {
            if judge_value {
                rep.violation(pid, "valid-rejected".into(), format!("unarmor of {} valid characters returned an error", n), || J::s(&what));
            }
        }
        Ok(Some((len, bad))) => {
            if judge_value && (len != want_len || bad.is_some()) {
                rep.violation(pid, "wrong-bits".into(), format!("unarmor of {} 'w': {} bytes (expected {}), first byte that is not 0xff at {:?}", n, len, want_len, bad), || J::s(&what));
            }
        }
    }
    rep.count("big-unarmor-probes");
}

/// boundary bytes around the two alphabet ranges plus extremes
pub const EDGE_INVALID: [u8; 10] = [47, 88, 95, 120, 0, 255, b',', b'*', 0x80, b' '];

/// Concurrent first use: the first `unarmor` calls of this process are made by 16 threads released
/// together (a decoder that builds a table or cache on first use must not hand out half-built
/// state). Every process of the check - 16 shards x builds - is one attempt.
fn concurrent_first_use(rep: &mut Report) {
    use std::sync::atomic::{AtomicUsize, Ordering};
    use std::sync::Arc;
    const N: usize = 16;
    let gate = Arc::new(AtomicUsize::new(0));
    let valid: Vec<u8> = (0..64).map(|i| armor::ALPHABET[(i * 7 + 63) % 64]).collect();
    let mut invalid = valid.clone();
    invalid[40] = b'~';
    let want = unarmor_ref(&valid, 0);
    let handles: Vec<_> = (0..N)
        .map(|_| {
            let gate = gate.clone();
            let (valid, invalid) = (valid.clone(), invalid.clone());
            std::thread::spawn(move || {
                gate.fetch_add(1, Ordering::AcqRel);
                while gate.load(Ordering::Acquire) < N {
                    std::hint::spin_loop();
                }
                let a = std::panic::catch_unwind(|| ais::messages::unarmor(&valid, 0).ok().map(|v| v.to_vec()));
                let b = std::panic::catch_unwind(|| ais::messages::unarmor(&invalid, 0).is_ok());
                (a.ok(), b.ok())
            })
        })
        .collect();
    for (ti, h) in handles.into_iter().enumerate() {
        rep.eval();
        match h.join() {
            Ok((Some(a), Some(b))) => {
                if a != want {
                    rep.violation(PID, "concurrent-first-use:valid".into(), format!("thread {} of 16 making the first unarmor calls of the process together: 64 valid characters gave {:?}", ti, a.as_ref().map(|v| crate::json::hex_str(v))), || mon::replay_unarmor(&valid, 0, "first calls of the process, 16 threads released together"));
                }
                if b {
                    rep.violation(PID, "concurrent-first-use:invalid-accepted".into(), format!("thread {} of 16 making the first unarmor calls of the process together: a string with '~' was unarmored to a value", ti), || mon::replay_unarmor(&invalid, 0, "first calls of the process, 16 threads released together"));
                }
            }
            _ => rep.violation(PID, "concurrent-first-use:panic".into(), format!("thread {} of 16 making the first unarmor calls of the process together panicked", ti), || mon::replay_unarmor(&valid, 0, "first calls of the process, 16 threads released together")),
        }
    }
    rep.count("concurrent_first_use_threads");
    rep.class("concurrent-first-use|16-threads".into());
}

pub fn run(ctx: &Ctx, rep: &mut Report) {
    concurrent_first_use(rep);
    let mut r = ctx.rng("c03");
    let mut idx: u64 = 0;
    // exhaustive: every byte string of length 0..=2, every fill
    for fill in 0..6 {
        if ctx.mine(idx) {
            check(rep, b"", fill, "len0");
        }
        idx += 1;
    }
    for a in 0..=255u8 {
        for fill in 0..6 {
            if ctx.mine(idx) {
                check(rep, &[a], fill, "len1");
            }
            idx += 1;
        }
    }
    for a in 0..=255u8 {
        for b in 0..=255u8 {
            if ctx.mine(idx) {
                for fill in 0..6 {
                    check(rep, &[a, b], fill, "len2");
                }
            }
            idx += 1;
        }
    }
    rep.extra.insert("exhaustive_len_le2".into(), J::Bool(true));
    // length 3: valid alphabet + boundary invalid bytes (all 256 in thorough)
    let mut set: Vec<u8> = armor::ALPHABET.to_vec();
    if ctx.thorough() {
        set = (0..=255u8).collect();
    } else {
        set.extend_from_slice(&EDGE_INVALID);
    }
    for &a in &set {
        for &b in &set {
            if ctx.mine(idx) {
                for &c in &set {
                    for fill in 0..6 {
                        check(rep, &[a, b, c], fill, "len3");
                    }
                }
            }
            idx += 1;
        }
    }
    // length 4 over the valid alphabet (all in thorough, sampled in quick)
    if ctx.thorough() {
        for &a in armor::ALPHABET.iter() {
            for &b in armor::ALPHABET.iter() {
                if ctx.mine(idx) {
                    for &c in armor::ALPHABET.iter() {
                        for &d in armor::ALPHABET.iter() {
                            for fill in 0..6 {
                                check(rep, &[a, b, c, d], fill, "len4");
                            }
                        }
                    }
                }
                idx += 1;
            }
        }
    } else {
        for _ in 0..ctx.budget(20_000, 0) {
            let s: Vec<u8> = (0..4).map(|_| *r.pick(armor::ALPHABET)).collect();
            check(rep, &s, r.below(6) as usize, "len4-random");
        }
    }
    // structural sampling of longer inputs: every length 5..=1000 (period 4 x fill balanced)
    let maxlen = if ctx.thorough() { 1200 } else { 1000 };
    for len in 5..=maxlen {
        if !ctx.mine(idx) {
            idx += 1;
            continue;
        }
        idx += 1;
        for fill in 0..6 {
            // random valid content
            let s: Vec<u8> = (0..len).map(|_| *r.pick(armor::ALPHABET)).collect();
            check(rep, &s, fill, "long-random");
            // all ones: any mask or carry error shows
            let ones = vec![b'w'; len];
            check(rep, &ones, fill, "long-ones");
        }
        // single 'w' in a field of '0' at a few positions, one invalid byte at a few positions
        let reps = if ctx.thorough() { 24 } else { 6 };
        for _ in 0..reps {
            let pos = r.usize(0, len - 1);
            let mut s = vec![b'0'; len];
            s[pos] = b'w';
            check(rep, &s, r.below(6) as usize, "long-single-w");
            let mut t: Vec<u8> = (0..len).map(|_| *r.pick(armor::ALPHABET)).collect();
            let bad = if r.bool() { *r.pick(&EDGE_INVALID) } else { r.below(256) as u8 };
            t[pos] = bad;
            check(rep, &t, r.below(6) as usize, "long-one-invalid");
        }
        // the tail is where fill masking happens: all 64 x 64 last-two characters for a few lengths
        if len <= 12 || len % 97 == 0 {
            for &a in armor::ALPHABET.iter() {
                for &b in armor::ALPHABET.iter() {
                    let mut s = vec![b'w'; len];
                    s[len - 2] = a;
                    s[len - 1] = b;
                    check(rep, &s, r.below(6) as usize, "tail-pairs");
                }
            }
        }
    }
    // several bytes outside the alphabet at once: every pair of positions (and every aligned group
    // of four) of strings of 4 .. 70 characters, with bytes from both sides of the alphabet's edges
    // and ASCII separators - verdicts combined per group of four must not cancel out
    {
        const BAD: [u8; 12] = [b' ', b'\r', b'\n', b',', b'*', b'X', b'_', b'x', 0x7f, b'/', 0x00, 0x80];
        let mut idx3 = 0u64;
        for len in [4usize, 5, 6, 7, 8, 9, 12, 16, 33, 70] {
            for i in 0..len {
                for j in (i + 1)..len {
                    if !ctx.mine(idx3) {
                        idx3 += 1;
                        continue;
                    }
                    idx3 += 1;
                    for rep_i in 0..4 {
                        let mut t: Vec<u8> = (0..len).map(|_| *r.pick(armor::ALPHABET)).collect();
                        let (a, b) = if rep_i == 0 { (b'X', b'X') } else { (*r.pick(&BAD), *r.pick(&BAD)) };
                        t[i] = a;
                        t[j] = b;
                        check(rep, &t, r.below(6) as usize, "two-invalid");
                    }
                }
            }
            // three and four invalid bytes inside one aligned group, and spread over two groups
            for g in (0..len / 4).take(4) {
                for mask in 1u8..16 {
                    if mask.count_ones() < 3 {
                        continue;
                    }
                    let mut t: Vec<u8> = (0..len).map(|_| *r.pick(armor::ALPHABET)).collect();
                    for k in 0..4 {
                        if mask >> k & 1 == 1 {
                            t[4 * g + k] = *r.pick(&BAD);
                        }
                    }
                    check(rep, &t, 0, "group-invalid");
                }
            }
        }
    }
    // far beyond any AIS message, but the statement is "for every string": lengths around the
    // points where 16-bit bit / byte / character-group counters would wrap (2^16 .. 2^23 bits,
    // 2^16 bytes, 2^16 groups of four characters) and powers of two of the character count
    if !mon::is_noalloc() {
        let mut idx2 = 0u64;
        let mut lens: Vec<usize> = vec![5461, 5462, 8191, 8192, 10_922, 10_923, 10_924, 16_384, 21_845, 21_846, 43_690, 43_691, 65_535, 65_536, 65_537, 87_381, 87_382, 87_383];
        lens.extend_from_slice(&[131_072, 174_762, 174_763, 262_143, 262_144, 262_145, 262_148, 349_525, 349_526, 524_288, 524_289]);
        if ctx.thorough() {
            lens.extend_from_slice(&[699_050, 699_051, 1_048_576, 1_048_577, 1_398_101, 1_398_102, 2_796_203]);
        }
        for len in lens {
            for fill in 0..6 {
                if ctx.mine(idx2) {
                    let s: Vec<u8> = (0..len).map(|_| *r.pick(armor::ALPHABET)).collect();
                    check(rep, &s, fill, "huge-random");
                    if len < 100_000 || fill % 3 == 0 {
                        let ones = vec![b'w'; len];
                        check(rep, &ones, fill, "huge-ones");
                    }
                    // a single '1' bit pattern at the very end of a field of zeros: anything that
                    // wraps around writes it to the front
                    let mut z = vec![b'0'; len];
                    z[len - 1] = b'w';
                    check(rep, &z, 0, "huge-last-w");
                }
                idx2 += 1;
            }
        }
        // one byte outside the alphabet in an otherwise valid long string, at the first / an early /
        // every power-of-two (+-1) / the last position: block-wise implementations must not lose it
        for len in [4095usize, 4096, 4097, 8193, 12_289, 20_000, 70_000] {
            let mut positions: Vec<usize> = vec![0, 1, len / 2, len - 2, len - 1];
            let mut p2 = 64usize;
            while p2 < len {
                positions.extend_from_slice(&[p2 - 1, p2]);
                if p2 + 1 < len {
                    positions.push(p2 + 1);
                }
                p2 *= 2;
            }
            for pos in positions {
                if ctx.mine(idx2) {
                    let mut s: Vec<u8> = (0..len).map(|_| *r.pick(armor::ALPHABET)).collect();
                    s[pos] = *r.pick(&EDGE_INVALID);
                    check(rep, &s, r.below(6) as usize, "huge-one-invalid");
                }
                idx2 += 1;
            }
        }
    }
    // strings built from a pool of words (two random words, the all-'0' and the all-'w' word) of
    // 2 / 4 / 8 / 16 characters with repetitions, behind 0 .. 9 other characters: implementations that
    // convert a block at a time and take short cuts for zero or repeated blocks
    {
        let mut idx5 = 0u64;
        for wi in 0..ctx.budget(40_000, 600_000) {
            if !ctx.mine(idx5) {
                idx5 += 1;
                continue;
            }
            idx5 += 1;
            let wl = *r.pick(&[2usize, 4, 8, 8, 8, 16]);
            let word = |r: &mut crate::rng::Rng| -> Vec<u8> { (0..wl).map(|_| *r.pick(armor::ALPHABET)).collect() };
            let pool: Vec<Vec<u8>> = vec![word(&mut r), word(&mut r), vec![b'0'; wl], vec![b'w'; wl]];
            let mut t: Vec<u8> = (0..r.usize(0, 9)).map(|_| *r.pick(armor::ALPHABET)).collect();
            if wi % 2 == 0 {
                t.clear();
            }
            let mut prev = 0usize;
            for i in 0..r.usize(3, 12) {
                let pick = if i >= 2 && r.chance(1, 3) { prev } else { r.usize(0, 3) };
                if i % 2 == 0 {
                    prev = pick;
                }
                t.extend_from_slice(&pool[pick]);
            }
            if mon::is_noalloc() {
                t.truncate(500);
            }
            check(rep, &t, r.below(6) as usize, "word-pool");
        }
    }
    // many bytes outside the alphabet in one string: their number at and around the points where
    // an 8/16/24-bit tally of rejected bytes would wrap to zero (8 and 16 bits in the quick tier; 2^32 in the thorough tier, one
    // shard of the std build), as one block, alone, or alternating with valid characters
    if !mon::is_noalloc() {
        let mut idx4 = 0u64;
        let mut counts: Vec<usize> = vec![255, 256, 257, 511, 512, 768, 65_535, 65_536, 65_537, 131_072, 196_608, 262_144];
        if ctx.thorough() {
            counts.extend_from_slice(&[1 << 24, (1 << 24) + 1, 1 << 25, 3 << 24]);
        }
        for m in counts {
            for layout in 0..4 {
                if !ctx.mine(idx4) {
                    idx4 += 1;
                    continue;
                }
                idx4 += 1;
                let bad = *r.pick(&EDGE_INVALID);
                let s: Vec<u8> = match layout {
                    0 => vec![bad; m],
                    1 => {
                        let mut v: Vec<u8> = (0..r.usize(1, 40)).map(|_| *r.pick(armor::ALPHABET)).collect();
                        v.extend(std::iter::repeat(bad).take(m));
                        v.extend((0..r.usize(1, 40)).map(|_| *r.pick(armor::ALPHABET)));
                        v
                    }
                    2 => (0..2 * m).map(|i| if i % 2 == 0 { bad } else { b'w' }).collect(),
                    _ => {
                        // different invalid bytes, valid characters sprinkled in between
                        let mut v = Vec::with_capacity(m + m / 7 + 1);
                        for i in 0..m {
                            v.push(EDGE_INVALID[i % EDGE_INVALID.len()]);
                            if i % 7 == 3 {
                                v.push(b'0');
                            }
                        }
                        v
                    }
                };
                check(rep, &s, if layout == 1 { 2 } else { 0 }, "many-invalid");
                rep.class(format!("many-invalid|{}|layout{}", m, layout));
            }
        }
        if ctx.thorough() && mon::CFG == "std" && ctx.shard == 1 % ctx.nshards {
            mon::allow(1usize << 32);
            let s = vec![b'~'; 1usize << 32];
            rep.eval();
            rep.class("many-invalid|2^32|layout0".into());
            match mon::guard(|| ais::messages::unarmor(&s, 0).is_ok()) {
                Err(pi) => rep.violation(PID, format!("panic@{}", pi.loc), pi.msg.clone(), || J::s("unarmor of 2^32 bytes outside the alphabet")),
                Ok(true) => rep.violation(PID, "invalid-accepted:many".into(), "a string of 2^32 bytes outside the armoring alphabet was unarmored to a value".into(), || J::s("unarmor(&[b'~'; 1 << 32], 0)")),
                Ok(false) => rep.count("expect_err"),
            }
        }
    }
    // std build, one shard: all-'w' strings so long that a signed 32-bit *bit* offset overflows
    // (2^31 bits = 357 913 942 characters; 0.6 GiB of memory), and in the thorough tier also an
    // unsigned one (2^32 bits) and a signed 32-bit *character* index (2^31 characters, 4 GiB).
    // All 'w' gives all-ones output, which is checked without the bit-per-byte reference.
    if mon::CFG == "std" && ctx.shard == 0 {
        big_unarmor_probe(rep, PID, 357_913_942 + 10, true);
        if ctx.thorough() {
            big_unarmor_probe(rep, PID, 715_827_883 + 9, true);
            big_unarmor_probe(rep, PID, (1usize << 31) + 8, true);
        }
    }
    rep.require("expect_ok");
    rep.require("expect_err");
}
