//! Observation and expectation values shared by `observe` (what the code under test
//! returned) and `decode_ref` (what the reference model says it must return).

#[derive(Clone, Debug, PartialEq)]
pub enum Sub {
    Offset(i64),
    Utc(u8, u8),
    SlotNumber(u64),
    Stations(u64),
}

#[derive(Clone, Debug, PartialEq)]
pub enum Comm {
    Sotdma { sync: u8, timeout: u8, sub: Sub },
    Itdma { sync: u8, incr: i64, slots: u8, keep: bool },
}

/// Observed value of one field of a returned message
#[derive(Clone, Debug, PartialEq)]
pub enum Val {
    U(u64),
    B(bool),
    OU(Option<u64>),
    F(Option<f32>),
    T(String),
    Y(Vec<u8>),
    /// Debug rendering of an enum value (C12 is about names)
    N(String),
    /// rate of turn through its public API: None, or (direction -1/0/+1, rate)
    Rot(Option<(i8, Option<f32>)>),
    Comm(Comm),
}

#[derive(Clone, Debug, PartialEq)]
pub struct Obs {
    pub key: &'static str,
    pub idx: u8,
    pub val: Val,
}

#[derive(Clone, Debug, PartialEq)]
pub struct ObsMsg {
    pub variant: &'static str,
    pub f: Vec<Obs>,
}

impl ObsMsg {
    pub fn get(&self, key: &str, idx: u8) -> Option<&Val> {
        self.f.iter().find(|o| o.key == key && o.idx == idx).map(|o| &o.val)
    }
}

/// Expected value of one field
#[derive(Clone, Debug, PartialEq)]
pub enum Exp {
    U(u64),
    B(bool),
    OU(Option<u64>),
    /// exact rational value (or absent); compared to single-precision rounding
    F(Option<f64>),
    T(String),
    Y(Vec<u8>),
    N(String),
    /// raw two's complement rate of turn (-128 = not available)
    Rot(i8),
    /// acceptable decodings (more than one only where ITU and crate agree on all valid values)
    Comm(Vec<Comm>),
    /// the statements leave this open: present but not compared
    Skip,
}

/// which property owns a field (C04 plain values, C10 scaling, C11 sentinels, ...)
pub type Prop = u8;

#[derive(Clone, Debug)]
pub struct ExpF {
    pub key: &'static str,
    pub idx: u8,
    pub start: u16,
    pub width: u16,
    pub prop: Prop,
    pub exp: Exp,
}

#[derive(Clone, Debug)]
pub struct RefMsg {
    pub variant: &'static str,
    pub mtype: u8,
    pub f: Vec<ExpF>,
    /// the statement demands acceptance at this length (specification-legal length)
    pub must_ok: bool,
    /// keys whose presence/values the statements leave open at this length
    pub open: Vec<&'static str>,
    /// sizes relevant to the fixed capacities of the no-allocator build (C18)
    pub caps: Caps,
}

#[derive(Clone, Copy, Debug, Default)]
pub struct Caps {
    /// bytes of binary data (types 6, 8, 17)
    pub data_len: usize,
    /// untrimmed characters of the longest text field
    pub text_chars: usize,
}

impl Caps {
    /// does the message exceed a fixed capacity of the no-allocator build?
    pub fn over(&self) -> bool {
        self.data_len > 119 || self.text_chars > 20
    }
}

#[derive(Clone, Debug)]
pub enum RefOut {
    /// unsupported type value: must be an error
    Unsupported,
    /// supported type but the mandatory part does not fit: must be an error
    TooShort(&'static str),
    Msg(RefMsg),
}

#[derive(Clone, Debug)]
pub struct Mismatch {
    pub key: String,
    pub prop: Prop,
    pub expected: String,
    pub observed: String,
}

pub const FTOL: f64 = 2.5e-7;

fn f_ok(e: Option<f64>, o: Option<f32>, tol: f64) -> bool {
    match (e, o) {
        (None, None) => true,
        (Some(x), Some(y)) => {
            let y = y as f64;
            if !y.is_finite() {
                return false;
            }
            (y - x).abs() <= tol * x.abs()
        }
        _ => false,
    }
}

fn rot_ok(raw: i8, o: &Option<(i8, Option<f32>)>) -> bool {
    if raw == -128 {
        return o.is_none();
    }
    let (dir, rate) = match o {
        Some(x) => *x,
        None => return false,
    };
    if dir != (raw as i32).signum() as i8 {
        return false;
    }
    if raw == 127 || raw == -127 {
        return rate.is_none();
    }
    let want = (raw as f64 / 4.733) * (raw as f64 / 4.733);
    f_ok(Some(want), rate, 1e-5)
}

pub fn exp_matches(e: &Exp, o: &Val) -> bool {
    match (e, o) {
        (Exp::Skip, _) => true,
        (Exp::U(a), Val::U(b)) => a == b,
        (Exp::B(a), Val::B(b)) => a == b,
        (Exp::OU(a), Val::OU(b)) => a == b,
        (Exp::F(a), Val::F(b)) => f_ok(*a, *b, FTOL),
        (Exp::T(a), Val::T(b)) => a == b,
        (Exp::Y(a), Val::Y(b)) => a == b,
        (Exp::N(a), Val::N(b)) => a == b,
        (Exp::Rot(a), Val::Rot(b)) => rot_ok(*a, b),
        (Exp::Comm(a), Val::Comm(b)) => a.iter().any(|x| x == b),
        _ => false,
    }
}

fn keyname(key: &str, idx: u8) -> String {
    if idx == 255 {
        key.to_string()
    } else {
        format!("{}[{}]", key, idx)
    }
}

/// Compare a returned message with the reference expectation. Every expected field must be
/// present and equal; every observed field must be expected (nothing fabricated).
pub fn compare(r: &RefMsg, o: &ObsMsg) -> Vec<Mismatch> {
    let mut out = Vec::new();
    if r.variant != o.variant {
        out.push(Mismatch {
            key: "variant".into(),
            prop: 9,
            expected: r.variant.into(),
            observed: o.variant.into(),
        });
        return out;
    }
    for e in &r.f {
        match o.get(e.key, e.idx) {
            None if matches!(e.exp, Exp::Skip) => {}
            None => out.push(Mismatch {
                key: keyname(e.key, e.idx),
                // the field's own property: a value that is not reported at all is not
                // reported correctly either (the element count itself is C14's)
                prop: e.prop,
                expected: format!("{:?}", e.exp),
                observed: "<field not reported>".into(),
            }),
            Some(v) => {
                if !exp_matches(&e.exp, v) {
                    // presence disagreements on optional values belong to C11, value
                    // disagreements to C10 (scaled) / C04 (plain)
                    let prop = match (&e.exp, v) {
                        (Exp::F(a), Val::F(b)) => if a.is_some() != b.is_some() { 11 } else { 10 },
                        (Exp::OU(a), Val::OU(b)) if e.prop == 11 => if a.is_some() != b.is_some() { 11 } else { 4 },
                        _ => e.prop,
                    };
                    out.push(Mismatch {
                        key: keyname(e.key, e.idx),
                        prop,
                        expected: format!("{:?}", e.exp),
                        observed: format!("{:?}", v),
                    });
                    // a scaled value that was transmitted but is reported as absent is not
                    // reported as raw/divisor either: C10 is violated along with C11 (the reverse,
                    // a 'not available' code reported as a value, is C11's alone)
                    if let (Exp::OU(Some(_)), Val::OU(None)) = (&e.exp, v) {
                        // likewise for a plain optional field: a transmitted value that is not
                        // reported is not "decoded to the transmitted value" (C04)
                        out.push(Mismatch {
                            key: keyname(e.key, e.idx),
                            prop: 4,
                            expected: format!("{:?}", e.exp),
                            observed: "absent, although the transmitted raw value is not the 'not available' code".into(),
                        });
                    }
                    if let (Exp::F(Some(_)), Val::F(None), 10) = (&e.exp, v, e.prop) {
                        out.push(Mismatch {
                            key: keyname(e.key, e.idx),
                            prop: 10,
                            expected: format!("{:?}", e.exp),
                            observed: "absent, although the transmitted raw value is not the 'not available' code".into(),
                        });
                    }
                }
            }
        }
    }
    for f in &o.f {
        if !r.f.iter().any(|e| e.key == f.key && e.idx == f.idx) && !r.open.contains(&f.key) {
            out.push(Mismatch {
                key: keyname(f.key, f.idx),
                prop: 14,
                expected: "<no such element present in the payload>".into(),
                observed: format!("{:?}", f.val),
            });
        }
    }
    out
}
