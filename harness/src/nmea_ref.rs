//! Reference recognizer and builder for the sentence language stated in C08 / C02 / C07.
//! A hand-written left-to-right scanner; it does not use nom or any `ais` function.
//!
//! line    := [ '\' tagbody '\' ] ('!' | '$') body '*' hex+ rest
//! body    := addr5 ',' num ',' num ',' [num] ',' chan ',' payload ',' fill
//! num     := 1+ ASCII digits, value <= 255 (leading zeros allowed)
//! chan    := 0+ bytes without ','       payload := 1+ bytes without ','
//! fill    := num with value < 6
//! hex+    := 1+ of [0-9a-fA-F]; value of the first min(len,8) digits <= 0xFF

#[derive(Clone, Debug, PartialEq, Eq)]
pub struct Fields {
    pub talker: [u8; 2],
    pub formatter: [u8; 3],
    pub n: u8,
    pub k: u8,
    pub id: Option<u8>,
    pub chan: Vec<u8>,
    pub payload: Vec<u8>,
    pub fill: u8,
    /// XOR of the bytes strictly between the start delimiter and the terminating '*'
    pub body_xor: u8,
    /// value transmitted after '*'
    pub tx: u8,
}

#[derive(Clone, Debug, PartialEq, Eq)]
pub enum Scan {
    /// not in the language: must be rejected
    Reject(&'static str),
    /// in the language (checksum still to be compared by the caller)
    Accept(Fields),
    /// a corner the property statements leave open (a '*' before the one that ends the
    /// fill field; an empty tag block): neither verdict is judged
    DontCare(&'static str),
}

fn num(line: &[u8], pos: &mut usize) -> Option<u8> {
    let s = *pos;
    let mut v: u32 = 0;
    let mut over = false;
    while *pos < line.len() && line[*pos].is_ascii_digit() {
        v = v * 10 + (line[*pos] - b'0') as u32;
        if v > 255 {
            over = true;
            v = 256; // saturate, keep scanning digits
        }
        *pos += 1;
    }
    if *pos == s || over {
        None
    } else {
        Some(v as u8)
    }
}

fn hexval(c: u8) -> Option<u32> {
    match c {
        b'0'..=b'9' => Some((c - b'0') as u32),
        b'a'..=b'f' => Some((c - b'a' + 10) as u32),
        b'A'..=b'F' => Some((c - b'A' + 10) as u32),
        _ => None,
    }
}

pub fn xor(b: &[u8]) -> u8 {
    let mut x = 0u8;
    for c in b {
        x ^= *c;
    }
    x
}

pub fn scan(line: &[u8]) -> Scan {
    let mut pos = 0usize;
    let mut dontcare: Option<&'static str> = None;
    if line.first() == Some(&b'\\') {
        // tag block: up to the next backslash
        let mut j = 1;
        while j < line.len() && line[j] != b'\\' {
            j += 1;
        }
        if j >= line.len() {
            return Scan::Reject("unterminated tag block");
        }
        if j == 1 {
            dontcare = Some("empty tag block");
        }
        pos = j + 1;
    }
    match line.get(pos) {
        Some(b'!') | Some(b'$') => pos += 1,
        _ => return Scan::Reject("no start delimiter"),
    }
    let body_start = pos;
    if line.len() < pos + 5 {
        return Scan::Reject("short address");
    }
    let talker = [line[pos], line[pos + 1]];
    let formatter = [line[pos + 2], line[pos + 3], line[pos + 4]];
    pos += 5;
    macro_rules! comma {
        () => {
            if line.get(pos) != Some(&b',') {
                return Scan::Reject("expected comma");
            }
            pos += 1;
        };
    }
    comma!();
    let n = match num(line, &mut pos) {
        Some(v) => v,
        None => return Scan::Reject("fragment count"),
    };
    comma!();
    let k = match num(line, &mut pos) {
        Some(v) => v,
        None => return Scan::Reject("fragment number"),
    };
    comma!();
    let id = if line.get(pos).map_or(false, |c| c.is_ascii_digit()) {
        match num(line, &mut pos) {
            Some(v) => Some(v),
            None => return Scan::Reject("sequence id"),
        }
    } else {
        None
    };
    comma!();
    let cs = pos;
    while pos < line.len() && line[pos] != b',' {
        pos += 1;
    }
    if pos >= line.len() {
        return Scan::Reject("channel not terminated");
    }
    let chan = line[cs..pos].to_vec();
    pos += 1;
    let ps = pos;
    while pos < line.len() && line[pos] != b',' {
        pos += 1;
    }
    if pos >= line.len() {
        return Scan::Reject("payload not terminated");
    }
    let payload = line[ps..pos].to_vec();
    if payload.is_empty() {
        return Scan::Reject("empty payload");
    }
    pos += 1;
    let fill = match num(line, &mut pos) {
        Some(v) if v < 6 => v,
        _ => return Scan::Reject("fill count"),
    };
    if line.get(pos) != Some(&b'*') {
        return Scan::Reject("expected star");
    }
    let star = pos;
    pos += 1;
    let hs = pos;
    while pos < line.len() && hexval(line[pos]).is_some() {
        pos += 1;
    }
    if pos == hs {
        return Scan::Reject("no checksum digits");
    }
    let take = (pos - hs).min(8);
    let mut v: u64 = 0;
    for c in &line[hs..hs + take] {
        v = v * 16 + hexval(*c).unwrap() as u64;
    }
    if v > 0xff {
        return Scan::Reject("checksum value too large");
    }
    if line[body_start..star].contains(&b'*') {
        return Scan::DontCare("star before the terminating star");
    }
    if let Some(r) = dontcare {
        return Scan::DontCare(r);
    }
    Scan::Accept(Fields {
        talker,
        formatter,
        n,
        k,
        id,
        chan,
        payload,
        fill,
        body_xor: xor(&line[body_start..star]),
        tx: v as u8,
    })
}

// ---------------------------------------------------------------------------
// builder

#[derive(Clone, Debug)]
pub struct Build {
    pub tag: Option<Vec<u8>>,
    pub delim: u8,
    pub talker: [u8; 2],
    pub formatter: [u8; 3],
    pub n: String,
    pub k: String,
    pub id: String,
    pub chan: Vec<u8>,
    pub payload: Vec<u8>,
    pub fill: String,
    /// None: correct checksum; Some(x): transmit x
    pub cks: Option<u8>,
    /// 0: "%02X", 1: "%02x", 2: "%X" (no padding), 3: zero-padded to 8 digits, 4: padded to 4
    pub hexstyle: u8,
    pub tail: Vec<u8>,
}

impl Build {
    pub fn simple(n: u8, k: u8, id: Option<u8>, chan: &[u8], payload: &[u8], fill: u8) -> Build {
        Build {
            tag: None,
            delim: b'!',
            talker: *b"AI",
            formatter: *b"VDM",
            n: n.to_string(),
            k: k.to_string(),
            id: id.map(|x| x.to_string()).unwrap_or_default(),
            chan: chan.to_vec(),
            payload: payload.to_vec(),
            fill: fill.to_string(),
            cks: None,
            hexstyle: 0,
            tail: Vec::new(),
        }
    }
    pub fn body(&self) -> Vec<u8> {
        let mut b = Vec::with_capacity(32 + self.payload.len());
        b.extend_from_slice(&self.talker);
        b.extend_from_slice(&self.formatter);
        b.push(b',');
        b.extend_from_slice(self.n.as_bytes());
        b.push(b',');
        b.extend_from_slice(self.k.as_bytes());
        b.push(b',');
        b.extend_from_slice(self.id.as_bytes());
        b.push(b',');
        b.extend_from_slice(&self.chan);
        b.push(b',');
        b.extend_from_slice(&self.payload);
        b.push(b',');
        b.extend_from_slice(self.fill.as_bytes());
        b
    }
    pub fn line(&self) -> Vec<u8> {
        let body = self.body();
        let c = self.cks.unwrap_or_else(|| xor(&body));
        let mut l = Vec::with_capacity(body.len() + 16);
        if let Some(t) = &self.tag {
            l.push(b'\\');
            l.extend_from_slice(t);
            l.push(b'\\');
        }
        l.push(self.delim);
        l.extend_from_slice(&body);
        l.push(b'*');
        let h = match self.hexstyle {
            0 => format!("{:02X}", c),
            1 => format!("{:02x}", c),
            2 => format!("{:X}", c),
            3 => format!("{:08X}", c),
            _ => format!("{:04x}", c),
        };
        l.extend_from_slice(h.as_bytes());
        l.extend_from_slice(&self.tail);
        l
    }
}

/// plain well-formed line with a correct checksum
pub fn mk(n: u8, k: u8, id: Option<u8>, payload: &[u8], fill: u8) -> Vec<u8> {
    Build::simple(n, k, id, b"A", payload, fill).line()
}

/// the sentences used by the repository's own tests and README (mutation corpus)
pub const CORPUS: &[&[u8]] = &[
    b"!AIVDM,1,1,,B,E>kb9O9aS@7PUh10dh19@;0Tah2cWrfP:l?M`00003vP100,0*01",
    b"!AIVDM,1,1,,A,403OtVAv6s5l1o?I``E`4I?02<34,0*21",
    b"!AIVDM,1,1,,B,ENkb9U79PW@80Q67h10dh1T6@Hq;`0W8:peOH00003vP000,0*1C",
    b"!AIVDM,1,1,,A,ENkb9H2`:@17W4b0h@@@@@@@@@@;WSEi:lK9800003vP000,0*08",
    b"!AIVDM,1,1,,A,E>kb9I99S@0`8@:9ah;0TahI7@@;V4=v:nv;h00003vP100,0*7A",
    b"!AIVDM,1,1,,B,403OtVAv6s5lOo?I`pE`4KO02<34,0*3E",
    b"!AIVDM,2,1,1,B,53`soB8000010KSOW<0P4eDp4l6000000000000U0p<24t@P05H3S833CDP00000,0*78",
    b"!AIVDM,2,2,1,B,0000000,2*26",
    b"!AIVDM,1,1,,,34RvgN500005tLTMfjiTs3u`0>`<,0*7A",
    b"\\s:2573345,c:1696241893*00\\!AIVDM,1,1,,A,E>kb9I99S@0`8@:9ah;0TahI7@@;V4=v:nv;h00003vP100,0*7A",
    b"!AIVDM,1,1,,A,8@2<HW@0BkdhF0dcH5R`Q@kDJjD;WwfRwwwwwwwwwwwwwwwwwwwwwwwwwt0,2*60",
    b"!AIVDM,1,1,,A,8@2R5Ph0GhEa?1bGBviEOwvlFR06EuOwgqriwnSwe7wvlOwwsAwwnSGmwvwt,0*64",
    b"!AIVDM,2,1,2,A,53`soB8000010KSOW<0P4eDp4l6000000000000U0p<24t@P05H3S833CDP0,0*78",
    b"!AIVDM,2,2,2,A,00000000000,2*26",
];

/// armored payloads used by the repository's message tests (mutation corpus)
pub const PAYLOADS: &[&[u8]] = &[
    b"13u?etPv2;0n:dDPwUM1U1Cb069D",
    b"16SteH0P00Jt63hHaa6SagvJ087r",
    b"33nQ:B50000FiEBRjpcK19qSR>`<",
    b"38Id705000rRVJhE7cl9n;160000",
    b"403OtVAv7=i?;o?IaHE`4Iw020S:",
    b"403OviQuMGCqWrRO9>E6fE700@GO",
    b"4h2E:qT47wk?0<tSF0l4Q@000d;@",
    b"5341U9`00000uCGCKL0u=@T4000000000000001?<@<47u;b004Sm51DQ0C@",
    b"53`soB8000010KSOW<0P4eDp4l6000000000000U0p<24t@P05H3S833CDP000000000000",
    b"6>jR0600V:C0>da4P106P00",
    b"6B?n;be:cbapalgc;i6?Ow4",
    b"702R5`hwCjq8",
    b"702R5`hwCt40",
    b"8@2<HW@0BkdhF0dcH5R`Q@kDJjD;WwfRwwwwwwwwwwwwwwwwwwwwwwwwwt0",
    b"8@2R5Ph0GhEa?1bGBviEOwvlFR06EuOwgqriwnSwe7wvlOwwsAwwnSGmwvwt",
    b"91b55wi;hbOS@OdQAC062Ch2089h",
    b":5MlU41GMK6@",
    b":6TMCD1GOS60",
    b";03sl8AvA;5AO7gnf@<FdSA00000",
    b"<42Lati0W:Ov=C7P6B?=Pjoihhjhqq0",
    b"<5?SIj1;GbD07??4",
    b"=39UOj0jFs9R",
    b">5?Per18=HB1U:1@E=B0m<L",
    b"?03Owo@nwsI0D00",
    b"?04759iVhc2lD003000",
    b"?>eq`dAh3`TQP00",
    b"@01uEO@hsqJ0<P00",
    b"@01uEO@mMk7P<P00",
    b"@6STUk004lQ206bCKNOBAb6SJ@5s",
    b"A02VqLPA4I6C07h5Ed1h<OrsuBTTwS?r:C?w`?la<gno1RTRwSP9:BcurA8a:Oko02TSwu8<:Jbb",
    b"B6:hQDh0029Pt<4TAS003h6TSP00",
    b"C6:ijoP00:9NNF4TEspILDN0Vc0jNc1WWV0000000000S2<6R20P",
    b"D02;bK0RlLfq6DM6DA8u6D0",
    b"D02<HjiUHBfr<`E6D0",
    b"E>kb9II9S@0`8@:9ah;0TahIW@@;Uafb:r5Ih00003vP100",
    b"G02OHAP8aLvg@@b1tF600000;00",
    b"H3mr@L4NC=D62?P<7nmpl00@8220",
    b"H6:lEgQL4r1<QDr0P4pN3KSKP00",
    b"H>cfmI4UFC@0DAN00000000H3110",
    b"K01;FQh?PbtE3P00",
    b"KC5E2b@U19PFdLbMuc5=ROv62<7m",
];
