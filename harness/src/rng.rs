//! Deterministic PRNG (xoshiro256** seeded through SplitMix64). No dependencies.

#[derive(Clone)]
pub struct Rng {
    s: [u64; 4],
}

fn splitmix(x: &mut u64) -> u64 {
    *x = x.wrapping_add(0x9E37_79B9_7F4A_7C15);
    let mut z = *x;
    z = (z ^ (z >> 30)).wrapping_mul(0xBF58_476D_1CE4_E5B9);
    z = (z ^ (z >> 27)).wrapping_mul(0x94D0_49BB_1331_11EB);
    z ^ (z >> 31)
}

pub fn fnv(s: &[u8]) -> u64 {
    let mut h: u64 = 0xcbf2_9ce4_8422_2325;
    for b in s {
        h ^= *b as u64;
        h = h.wrapping_mul(0x1000_0000_01b3);
    }
    h
}

impl Rng {
    pub fn new(seed: u64) -> Self {
        let mut x = seed;
        let s = [
            splitmix(&mut x),
            splitmix(&mut x),
            splitmix(&mut x),
            splitmix(&mut x),
        ];
        Rng { s }
    }
    /// Independent stream for (seed, workload name, shard).
    pub fn stream(seed: u64, name: &str, shard: u64) -> Self {
        Self::new(seed ^ fnv(name.as_bytes()).rotate_left(17) ^ shard.wrapping_mul(0xD6E8_FEB8_6659_FD93))
    }
    #[inline]
    pub fn next(&mut self) -> u64 {
        let r = self.s[1].wrapping_mul(5).rotate_left(7).wrapping_mul(9);
        let t = self.s[1] << 17;
        self.s[2] ^= self.s[0];
        self.s[3] ^= self.s[1];
        self.s[1] ^= self.s[2];
        self.s[0] ^= self.s[3];
        self.s[2] ^= t;
        self.s[3] = self.s[3].rotate_left(45);
        r
    }
    /// uniform in 0..n (n > 0)
    #[inline]
    pub fn below(&mut self, n: u64) -> u64 {
        debug_assert!(n > 0);
        ((self.next() as u128 * n as u128) >> 64) as u64
    }
    /// uniform in lo..=hi
    #[inline]
    pub fn range(&mut self, lo: u64, hi: u64) -> u64 {
        lo + self.below(hi - lo + 1)
    }
    #[inline]
    pub fn usize(&mut self, lo: usize, hi: usize) -> usize {
        self.range(lo as u64, hi as u64) as usize
    }
    #[inline]
    pub fn bool(&mut self) -> bool {
        self.next() >> 63 == 1
    }
    /// true with probability num/den
    #[inline]
    pub fn chance(&mut self, num: u64, den: u64) -> bool {
        self.below(den) < num
    }
    #[inline]
    pub fn pick<'a, T>(&mut self, xs: &'a [T]) -> &'a T {
        &xs[self.below(xs.len() as u64) as usize]
    }
    pub fn bytes(&mut self, len: usize) -> Vec<u8> {
        let mut v = Vec::with_capacity(len);
        while v.len() < len {
            let x = self.next();
            for i in 0..8 {
                if v.len() < len {
                    v.push((x >> (8 * i)) as u8);
                }
            }
        }
        v
    }
    /// width-bit value (width <= 64)
    #[inline]
    pub fn bits(&mut self, width: u32) -> u64 {
        if width == 0 {
            0
        } else if width >= 64 {
            self.next()
        } else {
            self.next() >> (64 - width)
        }
    }
}
