//! Reference decoder: what ITU-R M.1371-5 and the property statements say a payload
//! means. Reads fields at their specified bit positions of the bit string; never calls
//! `nom`, `heapless` or any `ais` function. See DESIGN.md Appendix A for the layouts.

use crate::bits::Bits;
use crate::val::*;

pub const SUPPORTED: [u8; 23] = [
    1, 2, 3, 4, 5, 6, 7, 8, 9, 10, 11, 12, 13, 14, 15, 16, 17, 18, 19, 20, 21, 24, 27,
];

pub fn variant_of(t: u8) -> Option<&'static str> {
    Some(match t {
        1..=3 => "PositionReport",
        4 => "BaseStationReport",
        5 => "StaticAndVoyageRelatedData",
        6 => "BinaryAddressedMessage",
        7 => "BinaryAcknowledgeMessage",
        8 => "BinaryBroadcastMessage",
        9 => "StandardAircraftPositionReport",
        10 => "UtcDateInquiry",
        11 => "UtcDateResponse",
        12 => "AddressedSafetyRelatedMessage",
        13 => "SafetyRelatedAcknowledgment",
        14 => "SafetyRelatedBroadcastMessage",
        15 => "Interrogation",
        16 => "AssignmentModeCommand",
        17 => "DgnssBroadcastBinaryMessage",
        18 => "StandardClassBPositionReport",
        19 => "ExtendedClassBPositionReport",
        20 => "DataLinkManagementMessage",
        21 => "AidToNavigationReport",
        24 => "StaticDataReport",
        27 => "LongRangeAisBroadcastMessage",
        _ => return None,
    })
}

// ---------------------------------------------------------------------------
// enumerated code tables (C12). The text is the Debug rendering of the value the
// crate's public enums give to the code the specification names.

pub fn nav_status_name(c: u64) -> String {
    const N: [&str; 15] = [
        "UnderWayUsingEngine",
        "AtAnchor",
        "NotUnderCommand",
        "RestrictedManouverability",
        "ConstrainedByDraught",
        "Moored",
        "Aground",
        "EngagedInFishing",
        "UnderWaySailing",
        "ReservedForHSC",
        "ReservedForWIG",
        "Reserved01",
        "Reserved02",
        "Reserved03",
        "AisSartIsActive",
    ];
    if c < 15 {
        format!("Some({})", N[c as usize])
    } else {
        "None".into()
    }
}

pub fn maneuver_name(c: u64) -> String {
    match c {
        0 => "None".into(),
        1 => "Some(NoSpecialManeuver)".into(),
        2 => "Some(SpecialManeuver)".into(),
        _ => format!("Some(Unknown({}))", c),
    }
}

pub fn epfd_name(c: u64) -> String {
    const N: [&str; 8] = [
        "Gps",
        "Glonass",
        "CombinedGpsAndGlonass",
        "LoranC",
        "Chayka",
        "IntegratedNavigationSystem",
        "Surveyed",
        "Galileo",
    ];
    match c {
        0 | 15 => "None".into(),
        1..=8 => format!("Some({})", N[(c - 1) as usize]),
        _ => format!("Some(Unknown({}))", c),
    }
}

/// bare variant rendering of a ship type code 1..=99 (None outside)
pub fn ship_type_variant(c: u64) -> Option<String> {
    let cat = |base: &str, d: u64, c: u64| -> String {
        match d {
            0 => base.to_string(),
            1 => format!("{}HazardousCategoryA", base),
            2 => format!("{}HazardousCategoryB", base),
            3 => format!("{}HazardousCategoryC", base),
            4 => format!("{}HazardousCategoryD", base),
            9 => format!("{}NoAdditionalInformation", base),
            _ => format!("{}Reserved({})", base, c),
        }
    };
    Some(match c {
        1..=19 => format!("Reserved({})", c),
        20..=24 => cat("WingInGround", c - 20, c),
        25..=29 => format!("WingInGroundReserved({})", c),
        30 => "Fishing".into(),
        31 => "Towing".into(),
        32 => "TowingLarge".into(),
        33 => "Dredging".into(),
        34 => "DivingOps".into(),
        35 => "MilitaryOps".into(),
        36 => "Sailing".into(),
        37 => "PleasureCraft".into(),
        38..=39 => format!("Reserved({})", c),
        40..=49 => cat("HighSpeedCraft", c - 40, c),
        50 => "PilotVessel".into(),
        51 => "SearchAndRescueVessel".into(),
        52 => "Tug".into(),
        53 => "PortTender".into(),
        54 => "AntiPollutionEquipment".into(),
        55 => "LawEnforcement".into(),
        56..=57 => format!("SpareLocalVessel({})", c),
        58 => "MedicalTransport".into(),
        59 => "NoncombatantShip".into(),
        60..=69 => cat("Passenger", c - 60, c),
        70..=79 => cat("Cargo", c - 70, c),
        80..=89 => cat("Tanker", c - 80, c),
        90..=99 => cat("Other", c - 90, c),
        _ => return None,
    })
}

pub fn ship_type_name(c: u64) -> String {
    match ship_type_variant(c) {
        Some(v) => format!("Some({})", v),
        None => "None".into(),
    }
}

pub fn aid_type_name(c: u64) -> String {
    const N: [&str; 31] = [
        "ReferencePoint",
        "Racon",
        "FixedStructureOffShore",
        "Spare",
        "LightWithoutSectors",
        "LightWithSectors",
        "LeadingLightFront",
        "LeadingLightRear",
        "BeaconCardinalN",
        "BeaconCardinalE",
        "BeaconCardinalS",
        "BeaconCardinalW",
        "BeaconPortHand",
        "BeaconStarboardHand",
        "BeaconPreferredChannelPortHand",
        "BeaconPreferredChannelStarboardHand",
        "BeaconIsolatedDanger",
        "BeaconSafeWater",
        "BeaconSpecialMark",
        "CardinalMarkN",
        "CardinalMarkE",
        "CardinalMarkS",
        "CardinalMarkW",
        "PortHandMark",
        "StarboardHandMark",
        "PreferredChannelPortHand",
        "PreferredChannelStarboardHand",
        "IsolatedDanger",
        "SafeWater",
        "SpecialMark",
        "LightVesselOrLanbyOrRigs",
    ];
    match c {
        0 => "None".into(),
        1..=31 => format!("Some({})", N[(c - 1) as usize]),
        _ => format!("Some(Unknown({}))", c),
    }
}

pub fn dte_name(c: u64) -> String {
    (if c == 0 { "Ready" } else { "NotReady" }).into()
}
pub fn accuracy_name(c: u64) -> String {
    (if c == 0 { "Unaugmented" } else { "Dgps" }).into()
}
pub fn assigned_name(c: u64) -> String {
    (if c == 0 { "Autonomous" } else { "Assigned" }).into()
}
pub fn cs_unit_name(c: u64) -> String {
    (if c == 0 { "Sotdma" } else { "CarrierSense" }).into()
}

#[derive(Clone, Copy, Debug, PartialEq, Eq)]
pub enum En {
    NavStatus,
    Maneuver,
    Epfd,
    ShipType,
    AidType,
    Dte,
    Accuracy,
    Assigned,
    CsUnit,
}

pub fn enum_name(e: En, c: u64) -> String {
    match e {
        En::NavStatus => nav_status_name(c),
        En::Maneuver => maneuver_name(c),
        En::Epfd => epfd_name(c),
        En::ShipType => ship_type_name(c),
        En::AidType => aid_type_name(c),
        En::Dte => dte_name(c),
        En::Accuracy => accuracy_name(c),
        En::Assigned => assigned_name(c),
        En::CsUnit => cs_unit_name(c),
    }
}

// ---------------------------------------------------------------------------
// text (C13)

pub fn ascii6(v: u8) -> u8 {
    if v < 32 {
        v + 64
    } else {
        v
    }
}

/// 6-bit ASCII decoding of `chars` characters from `start`, then: strip leading spaces,
/// strip trailing '@', strip trailing spaces
pub fn text_ref(b: &Bits, start: usize, chars: usize) -> String {
    let mut s: Vec<u8> = (0..chars).map(|i| ascii6(b.uint(start + 6 * i, 6) as u8)).collect();
    let mut a = 0;
    while a < s.len() && s[a] == b' ' {
        a += 1;
    }
    s.drain(0..a);
    while s.last() == Some(&b'@') {
        s.pop();
    }
    while s.last() == Some(&b' ') {
        s.pop();
    }
    String::from_utf8(s).unwrap()
}

// ---------------------------------------------------------------------------
// communication state (C16)

pub fn sotdma_ref(b: &Bits, at: usize) -> Vec<Comm> {
    let sync = b.uint(at, 2) as u8;
    let timeout = b.uint(at + 2, 3) as u8;
    let s = at + 5;
    let mk = |sub| Comm::Sotdma { sync, timeout, sub };
    match timeout {
        0 => vec![mk(Sub::Offset(b.uint(s, 14) as i64))],
        1 => {
            let hour = b.uint(s, 5) as u8;
            // ITU: minute in 7 bits; crate: spare + 6 bits. Equal for every valid minute.
            let m7 = b.uint(s + 5, 7) as u8;
            let m6 = b.uint(s + 6, 6) as u8;
            if m7 == m6 {
                vec![mk(Sub::Utc(hour, m6))]
            } else {
                vec![mk(Sub::Utc(hour, m7)), mk(Sub::Utc(hour, m6))]
            }
        }
        2 | 4 | 6 => vec![mk(Sub::SlotNumber(b.uint(s, 14)))],
        _ => vec![mk(Sub::Stations(b.uint(s, 14)))],
    }
}

pub fn itdma_ref(b: &Bits, at: usize) -> Vec<Comm> {
    vec![Comm::Itdma {
        sync: b.uint(at, 2) as u8,
        incr: b.uint(at + 2, 13) as i64,
        slots: b.uint(at + 15, 3) as u8,
        keep: b.uint(at + 18, 1) == 1,
    }]
}

// ---------------------------------------------------------------------------

struct R<'a> {
    b: &'a Bits,
    f: Vec<ExpF>,
}

impl<'a> R<'a> {
    fn push(&mut self, key: &'static str, idx: u8, start: usize, width: usize, prop: Prop, exp: Exp) {
        self.f.push(ExpF { key, idx, start: start as u16, width: width as u16, prop, exp });
    }
    fn u(&mut self, key: &'static str, start: usize, width: usize) {
        let v = self.b.uint(start, width);
        self.push(key, 255, start, width, 4, Exp::U(v));
    }
    fn ui(&mut self, key: &'static str, idx: u8, start: usize, width: usize) {
        let v = self.b.uint(start, width);
        self.push(key, idx, start, width, 4, Exp::U(v));
    }
    fn flag(&mut self, key: &'static str, start: usize) {
        let v = self.b.uint(start, 1) == 1;
        self.push(key, 255, start, 1, 4, Exp::B(v));
    }
    /// optional unsigned with a 'not available' code
    fn ou(&mut self, key: &'static str, idx: u8, start: usize, width: usize, sentinel: u64) {
        let v = self.b.uint(start, width);
        let e = if v == sentinel { None } else { Some(v) };
        self.push(key, idx, start, width, 11, Exp::OU(e));
    }
    /// signed coordinate scaled by div with sentinel
    fn coord(&mut self, key: &'static str, start: usize, width: usize, div: f64, sentinel: i64) {
        let v = self.b.sint(start, width);
        let e = if v == sentinel { None } else { Some(v as f64 / div) };
        self.push(key, 255, start, width, 10, Exp::F(e));
    }
    /// unsigned scaled value, optional sentinel
    fn scaled(&mut self, key: &'static str, start: usize, width: usize, div: f64, sentinel: Option<u64>) {
        let v = self.b.uint(start, width);
        let e = if Some(v) == sentinel { None } else { Some(v as f64 / div) };
        self.push(key, 255, start, width, 10, Exp::F(e));
    }
    fn en(&mut self, key: &'static str, start: usize, width: usize, e: En) {
        let v = self.b.uint(start, width);
        self.push(key, 255, start, width, 12, Exp::N(enum_name(e, v)));
    }
    fn text(&mut self, key: &'static str, start: usize, chars: usize) {
        let t = text_ref(self.b, start, chars);
        self.push(key, 255, start, chars * 6, 13, Exp::T(t));
    }
    fn bytes_to_end(&mut self, key: &'static str, start: usize) {
        let all = self.b.to_bytes();
        let d = all[(start / 8).min(all.len())..].to_vec();
        let w = self.b.len().saturating_sub(start);
        self.push(key, 255, start, w, 15, Exp::Y(d));
    }
    fn common(&mut self) {
        self.u("message_type", 0, 6);
        self.u("repeat_indicator", 6, 2);
        self.u("mmsi", 8, 30);
    }
}

/// byte-rounded length at which a message of `l` bits arrives when transmitted as
/// ceil(l/6) armored characters, and when handed over as a raw buffer
fn legal_b(l: usize) -> [usize; 2] {
    let n = (l + 5) / 6;
    [8 * ((6 * n + 7) / 8), 8 * ((l + 7) / 8)]
}

fn is_legal(b: usize, lens: &[usize]) -> bool {
    lens.iter().any(|l| legal_b(*l).contains(&b))
}

/// Protocol maximum (5 slots): 1008 bits.
const MAXBITS: usize = 1008;

/// What must `messages::parse` return for this unarmored buffer?
pub fn decode_ref(bits: &Bits) -> RefOut {
    let bl = bits.len(); // multiple of 8: the unarmored buffer
    if bl < 6 {
        // not even a type: an error for every reading of the statements
        return RefOut::TooShort("no type field");
    }
    let t = bits.uint(0, 6) as u8;
    let variant = match variant_of(t) {
        Some(v) => v,
        None => return RefOut::Unsupported,
    };
    let mut r = R { b: bits, f: Vec::new() };
    let mut open: Vec<&'static str> = Vec::new();
    let mut caps = Caps::default();
    let must_ok;
    macro_rules! need {
        ($n:expr, $why:expr) => {
            if bl < $n {
                return RefOut::TooShort($why);
            }
        };
    }
    match t {
        1 | 2 | 3 => {
            need!(168, "position report is 168 bits");
            r.common();
            r.en("navigation_status", 38, 4, En::NavStatus);
            let rot = bits.uint(42, 8) as u8 as i8;
            r.push("rate_of_turn", 255, 42, 8, 11, Exp::Rot(rot));
            r.scaled("speed_over_ground", 50, 10, 10.0, Some(1023));
            r.en("position_accuracy", 60, 1, En::Accuracy);
            r.coord("longitude", 61, 28, 600000.0, 108_600_000);
            r.coord("latitude", 89, 27, 600000.0, 54_600_000);
            r.scaled("course_over_ground", 116, 12, 10.0, Some(3600));
            r.ou("true_heading", 255, 128, 9, 511);
            r.u("timestamp", 137, 6);
            r.en("maneuver_indicator", 143, 2, En::Maneuver);
            r.flag("raim", 148);
            let c = if t == 3 { itdma_ref(bits, 149) } else { sotdma_ref(bits, 149) };
            r.push("radio_status", 255, 149, 19, 16, Exp::Comm(c));
            must_ok = is_legal(bl, &[168]);
        }
        4 | 11 => {
            need!(168, "base station report is 168 bits");
            r.common();
            r.ou("year", 255, 38, 14, 0);
            r.ou("month", 255, 52, 4, 0);
            r.ou("day", 255, 56, 5, 0);
            r.u("hour", 61, 5);
            r.ou("minute", 255, 66, 6, 60);
            r.ou("second", 255, 72, 6, 60);
            r.en("fix_quality", 78, 1, En::Accuracy);
            r.coord("longitude", 79, 28, 600000.0, 108_600_000);
            r.coord("latitude", 107, 27, 600000.0, 54_600_000);
            r.en("epfd_type", 134, 4, En::Epfd);
            r.flag("raim", 148);
            r.push("radio_status", 255, 149, 19, 16, Exp::Comm(sotdma_ref(bits, 149)));
            must_ok = is_legal(bl, &[168]);
        }
        5 => {
            need!(302, "static data up to draught is 302 bits");
            r.common();
            r.u("ais_version", 38, 2);
            r.u("imo_number", 40, 30);
            r.text("callsign", 70, 7);
            r.text("vessel_name", 112, 20);
            r.en("ship_type", 232, 8, En::ShipType);
            r.u("dimension_to_bow", 240, 9);
            r.u("dimension_to_stern", 249, 9);
            r.u("dimension_to_port", 258, 6);
            r.u("dimension_to_starboard", 264, 6);
            r.en("epfd_type", 270, 4, En::Epfd);
            r.ou("eta_month_utc", 255, 274, 4, 0);
            r.ou("eta_day_utc", 255, 278, 5, 0);
            r.u("eta_hour_utc", 283, 5);
            r.ou("eta_minute_utc", 255, 288, 6, 60);
            r.scaled("draught", 294, 8, 10.0, None);
            let chars = ((bl - 302) / 6).min(20);
            r.text("destination", 302, chars);
            caps.text_chars = caps.text_chars.max(chars);
            let after = 302 + 6 * chars;
            if bl >= 424 {
                r.en("dte", 422, 1, En::Dte);
            } else if after == bl {
                r.push("dte", 255, after, 0, 14, Exp::N("NotReady".into()));
            } else {
                r.push("dte", 255, after, 0, 14, Exp::Skip);
            }
            must_ok = bl >= 304 && bl <= MAXBITS;
        }
        6 => {
            need!(88, "binary addressed header is 88 bits");
            r.common();
            r.u("seqno", 38, 2);
            r.u("dest_mmsi", 40, 30);
            r.flag("retransmit", 70);
            r.u("dac", 72, 10);
            r.u("fid", 82, 6);
            r.bytes_to_end("data", 88);
            caps.data_len = bl / 8 - 11;
            must_ok = bl <= MAXBITS;
        }
        7 | 13 => {
            need!(72, "acknowledge needs one 32-bit entry");
            r.common();
            let cnt = ((bl - 40) / 32).min(4);
            r.push("acks.len", 255, 40, 0, 14, Exp::U(cnt as u64));
            for i in 0..cnt {
                r.ui("acks.mmsi", i as u8, 40 + 32 * i, 30);
                r.ui("acks.seq", i as u8, 70 + 32 * i, 2);
            }
            must_ok = is_legal(bl, &[72, 104, 136, 168]);
        }
        8 => {
            need!(56, "binary broadcast header is 56 bits");
            r.common();
            r.u("dac", 40, 10);
            r.u("fid", 50, 6);
            r.bytes_to_end("data", 56);
            caps.data_len = bl / 8 - 7;
            must_ok = bl <= MAXBITS;
        }
        9 => {
            need!(168, "SAR aircraft report is 168 bits");
            r.common();
            r.ou("altitude", 255, 38, 12, 4095);
            r.scaled("speed_over_ground", 50, 10, 1.0, Some(1023));
            r.en("position_accuracy", 60, 1, En::Accuracy);
            r.coord("longitude", 61, 28, 600000.0, 108_600_000);
            r.coord("latitude", 89, 27, 600000.0, 54_600_000);
            r.scaled("course_over_ground", 116, 12, 10.0, Some(3600));
            r.u("timestamp", 128, 6);
            r.en("dte", 142, 1, En::Dte);
            r.en("assigned_mode", 146, 1, En::Assigned);
            r.flag("raim", 147);
            let c = if bits.uint(148, 1) == 1 { itdma_ref(bits, 149) } else { sotdma_ref(bits, 149) };
            r.push("radio_status", 255, 148, 20, 16, Exp::Comm(c));
            must_ok = is_legal(bl, &[168]);
        }
        10 => {
            need!(70, "UTC inquiry destination ends at bit 70");
            r.common();
            r.u("dest_mmsi", 40, 30);
            must_ok = is_legal(bl, &[72]);
        }
        12 => {
            need!(78, "addressed safety text needs one character");
            r.common();
            r.u("seqno", 38, 2);
            r.u("dest_mmsi", 40, 30);
            r.flag("retransmit", 70);
            let chars = (bl - 72) / 6;
            r.text("text", 72, chars);
            caps.text_chars = chars;
            must_ok = bl <= MAXBITS;
        }
        14 => {
            need!(46, "safety broadcast text needs one character");
            r.common();
            let chars = (bl - 40) / 6;
            r.text("text", 40, chars);
            caps.text_chars = chars;
            must_ok = bl <= MAXBITS;
        }
        15 => {
            need!(76, "interrogation needs one station and one message type");
            r.common();
            r.ui("st.mmsi", 0, 40, 30);
            r.ui("st.msg.type", 0, 70, 6);
            if bl >= 88 {
                r.ou("st.msg.offset", 0, 76, 12, 0);
            } else {
                open.push("st.msg.offset");
            }
            if bl >= 108 {
                let t2 = bits.uint(90, 6);
                let o2 = bits.uint(96, 12);
                if t2 != 0 || o2 != 0 {
                    r.ui("st.msg.type", 1, 90, 6);
                    r.ou("st.msg.offset", 1, 96, 12, 0);
                    r.push("st.msgs.len", 0, 90, 0, 14, Exp::U(2));
                } else {
                    r.push("st.msgs.len", 0, 90, 0, 14, Exp::U(1));
                }
            } else if bl >= 96 {
                // second request only partly present: count and content unasserted
                r.push("st.msgs.len", 0, 90, 0, 14, Exp::Skip);
                open.push("st.msg.type");
                open.push("st.msg.offset");
            } else {
                r.push("st.msgs.len", 0, 90, 0, 14, Exp::U(1));
            }
            if bl >= 160 {
                r.push("stations.len", 255, 110, 0, 14, Exp::U(2));
                r.ui("st.mmsi", 1, 110, 30);
                r.ui("st.msg.type", 2, 140, 6);
                r.ou("st.msg.offset", 2, 146, 12, 0);
                if bl == 160 {
                    r.push("st.msgs.len", 1, 140, 0, 14, Exp::U(1));
                } else {
                    // requests read from bits past bit 160 are not judged
                    r.push("st.msgs.len", 1, 140, 0, 14, Exp::Skip);
                    open.push("st.msg.type");
                    open.push("st.msg.offset");
                }
            } else if bl <= 120 {
                r.push("stations.len", 255, 110, 0, 14, Exp::U(1));
            } else {
                // between the legal lengths: station count unasserted
                r.push("stations.len", 255, 110, 0, 14, Exp::Skip);
                open.push("st.mmsi");
                open.push("st.msgs.len");
                open.push("st.msg.type");
                open.push("st.msg.offset");
            }
            must_ok = is_legal(bl, &[88, 110, 160]);
        }
        16 => {
            need!(92, "assignment command needs one station");
            r.common();
            r.u("mmsi1", 40, 30);
            r.u("offset1", 70, 12);
            r.u("increment1", 82, 10);
            if bl >= 144 {
                let m = bits.uint(92, 30);
                let o = bits.uint(122, 12);
                let i = bits.uint(134, 10);
                r.push("mmsi2", 255, 92, 30, 4, Exp::OU(Some(m)));
                r.push("offset2", 255, 122, 12, 4, Exp::OU(Some(o)));
                r.push("increment2", 255, 134, 10, 4, Exp::OU(Some(i)));
            } else {
                r.push("mmsi2", 255, 92, 0, 14, Exp::OU(None));
                r.push("offset2", 255, 122, 0, 14, Exp::OU(None));
                r.push("increment2", 255, 134, 0, 14, Exp::OU(None));
            }
            must_ok = is_legal(bl, &[96, 144]);
        }
        17 => {
            need!(80, "DGNSS position part is 80 bits");
            r.common();
            r.coord("longitude", 40, 18, 600.0, 108_600);
            r.coord("latitude", 58, 17, 600.0, 54_600);
            if bl >= 120 {
                r.u("dg.message_type", 80, 6);
                r.u("dg.station_id", 86, 10);
                r.u("dg.z_count", 96, 13);
                r.u("dg.sequence_number", 109, 3);
                r.u("dg.n", 112, 5);
                r.u("dg.health", 117, 3);
                r.bytes_to_end("dg.data", 120);
                caps.data_len = bl / 8 - 15;
                must_ok = bl <= MAXBITS;
            } else {
                for k in [
                    "dg.message_type",
                    "dg.station_id",
                    "dg.z_count",
                    "dg.sequence_number",
                    "dg.n",
                    "dg.health",
                    "dg.data",
                ] {
                    open.push(k);
                }
                must_ok = false;
            }
        }
        18 => {
            need!(168, "class B report is 168 bits");
            r.common();
            r.scaled("speed_over_ground", 46, 10, 10.0, Some(1023));
            r.en("position_accuracy", 56, 1, En::Accuracy);
            r.coord("longitude", 57, 28, 600000.0, 108_600_000);
            r.coord("latitude", 85, 27, 600000.0, 54_600_000);
            r.scaled("course_over_ground", 112, 12, 10.0, Some(3600));
            r.ou("true_heading", 255, 124, 9, 511);
            r.u("timestamp", 133, 6);
            r.en("cs_unit", 141, 1, En::CsUnit);
            r.flag("has_display", 142);
            r.flag("has_dsc", 143);
            r.flag("whole_band", 144);
            r.flag("accepts_message_22", 145);
            r.en("assigned_mode", 146, 1, En::Assigned);
            r.flag("raim", 147);
            let c = if bits.uint(148, 1) == 1 { itdma_ref(bits, 149) } else { sotdma_ref(bits, 149) };
            r.push("radio_status", 255, 148, 20, 16, Exp::Comm(c));
            must_ok = is_legal(bl, &[168]);
        }
        19 => {
            need!(308, "extended class B report is 312 bits");
            r.common();
            r.scaled("speed_over_ground", 46, 10, 10.0, Some(1023));
            r.en("position_accuracy", 56, 1, En::Accuracy);
            r.coord("longitude", 57, 28, 600000.0, 108_600_000);
            r.coord("latitude", 85, 27, 600000.0, 54_600_000);
            r.scaled("course_over_ground", 112, 12, 10.0, Some(3600));
            r.ou("true_heading", 255, 124, 9, 511);
            r.u("timestamp", 133, 6);
            r.text("name", 143, 20);
            r.en("type_of_ship_and_cargo", 263, 8, En::ShipType);
            r.u("dimension_to_bow", 271, 9);
            r.u("dimension_to_stern", 280, 9);
            r.u("dimension_to_port", 289, 6);
            r.u("dimension_to_starboard", 295, 6);
            r.en("epfd_type", 301, 4, En::Epfd);
            r.flag("raim", 305);
            r.en("dte", 306, 1, En::Dte);
            r.en("assigned_mode", 307, 1, En::Assigned);
            caps.text_chars = 20;
            must_ok = is_legal(bl, &[312]);
        }
        20 => {
            need!(70, "data link management needs one 30-bit reservation");
            r.common();
            let cnt = ((bl - 40) / 30).min(4);
            r.push("res.len", 255, 40, 0, 14, Exp::U(cnt as u64));
            for i in 0..cnt {
                r.ui("res.offset", i as u8, 40 + 30 * i, 12);
                r.ui("res.num_slots", i as u8, 52 + 30 * i, 4);
                r.ui("res.timeout", i as u8, 56 + 30 * i, 3);
                r.ui("res.increment", i as u8, 59 + 30 * i, 11);
            }
            must_ok = is_legal(bl, &[72, 104, 136, 160]);
        }
        21 => {
            need!(271, "aid to navigation report is 272 bits");
            r.common();
            r.en("aid_type", 38, 5, En::AidType);
            r.text("name", 43, 20);
            r.en("accuracy", 163, 1, En::Accuracy);
            r.coord("longitude", 164, 28, 600000.0, 108_600_000);
            r.coord("latitude", 192, 27, 600000.0, 54_600_000);
            r.u("dimension_to_bow", 219, 9);
            r.u("dimension_to_stern", 228, 9);
            r.u("dimension_to_port", 237, 6);
            r.u("dimension_to_starboard", 243, 6);
            r.en("epfd_type", 249, 4, En::Epfd);
            r.u("utc_second", 253, 6);
            r.flag("off_position", 259);
            r.u("regional_reserved", 260, 8);
            r.flag("raim", 268);
            r.flag("virtual_aid", 269);
            r.flag("assigned_mode", 270);
            caps.text_chars = 20;
            must_ok = bl >= 272 && bl <= 368;
        }
        24 => {
            need!(40, "static data report needs a part number");
            r.common();
            let part = bits.uint(38, 2);
            match part {
                0 => {
                    need!(160, "part A name ends at bit 160");
                    r.push("part", 255, 38, 2, 12, Exp::N("PartA".into()));
                    r.text("vessel_name", 40, 20);
                    caps.text_chars = 20;
                    must_ok = is_legal(bl, &[160, 168]);
                }
                1 => {
                    need!(162, "part B dimensions end at bit 162");
                    r.push("part", 255, 38, 2, 12, Exp::N("PartB".into()));
                    r.en("ship_type", 40, 8, En::ShipType);
                    r.text("vendor_id", 48, 3);
                    r.text("model_serial", 66, 4);
                    r.u("unit_model_code", 66, 4);
                    r.u("serial_number", 70, 20);
                    r.text("callsign", 90, 7);
                    r.u("dimension_to_bow", 132, 9);
                    r.u("dimension_to_stern", 141, 9);
                    r.u("dimension_to_port", 150, 6);
                    r.u("dimension_to_starboard", 156, 6);
                    must_ok = is_legal(bl, &[168]);
                }
                p => {
                    r.push("part", 255, 38, 2, 12, Exp::N(format!("Unknown({})", p)));
                    must_ok = is_legal(bl, &[160, 168]);
                }
            }
        }
        27 => {
            need!(95, "long range broadcast is 96 bits");
            r.common();
            r.en("position_accuracy", 38, 1, En::Accuracy);
            r.flag("raim", 39);
            r.en("navigation_status", 40, 4, En::NavStatus);
            r.coord("longitude", 44, 18, 600.0, 108_600);
            r.coord("latitude", 62, 17, 600.0, 54_600);
            r.scaled("speed_over_ground", 79, 6, 1.0, Some(63));
            r.scaled("course_over_ground", 85, 9, 1.0, Some(511));
            r.flag("gnss_position_status", 94);
            must_ok = is_legal(bl, &[96]);
        }
        _ => unreachable!(),
    }
    RefOut::Msg(RefMsg { variant, mtype: t, f: r.f, must_ok, open, caps })
}
