//! Generators of specification-shaped messages (bit strings with known content) and the
//! common judge that compares what `ais` returned with the reference model.

use crate::bits::Bits;
use crate::decode_ref::decode_ref;
use crate::mon::{self, MsgCall, Report};
use crate::rng::Rng;
use crate::val::*;

#[derive(Clone, Copy, Debug)]
pub struct Branch {
    pub t: u8,
    /// transmitted length in bits
    pub len: usize,
    pub name: &'static str,
    /// (start, width, value) forced after randomisation, to select the layout branch
    pub force: &'static [(usize, usize, u64)],
}

macro_rules! br {
    ($t:expr, $len:expr, $name:expr) => {
        Branch { t: $t, len: $len, name: $name, force: &[] }
    };
    ($t:expr, $len:expr, $name:expr, $force:expr) => {
        Branch { t: $t, len: $len, name: $name, force: $force }
    };
}

/// every supported layout and layout branch at a specification-legal length
pub const BRANCHES: &[Branch] = &[
    br!(1, 168, "t1"),
    br!(2, 168, "t2"),
    br!(3, 168, "t3"),
    br!(4, 168, "t4"),
    br!(5, 424, "t5-full"),
    br!(5, 420, "t5-420"),
    br!(5, 422, "t5-422"),
    br!(5, 362, "t5-trunc10"),
    br!(5, 302, "t5-nodest"),
    br!(6, 88, "t6-empty"),
    br!(6, 168, "t6-10bytes"),
    br!(6, 1008, "t6-115bytes"),
    br!(7, 72, "t7-1"),
    br!(7, 104, "t7-2"),
    br!(7, 136, "t7-3"),
    br!(7, 168, "t7-4"),
    br!(8, 56, "t8-empty"),
    br!(8, 168, "t8-14bytes"),
    br!(8, 1008, "t8-119bytes"),
    br!(9, 168, "t9-sotdma", &[(148, 1, 0)]),
    br!(9, 168, "t9-itdma", &[(148, 1, 1)]),
    br!(10, 72, "t10"),
    br!(11, 168, "t11"),
    br!(12, 78, "t12-1char"),
    br!(12, 132, "t12-10chars"),
    br!(12, 192, "t12-20chars"),
    br!(13, 72, "t13-1"),
    br!(13, 104, "t13-2"),
    br!(13, 136, "t13-3"),
    br!(13, 168, "t13-4"),
    br!(14, 46, "t14-1char"),
    br!(14, 100, "t14-10chars"),
    br!(14, 160, "t14-20chars"),
    br!(15, 88, "t15-1st-1msg"),
    br!(15, 110, "t15-1st-2msg"),
    br!(15, 110, "t15-1st-2msg-null", &[(90, 18, 0)]),
    br!(15, 160, "t15-2st"),
    br!(15, 160, "t15-2st-null2", &[(90, 18, 0)]),
    br!(16, 96, "t16-1st"),
    br!(16, 144, "t16-2st"),
    br!(17, 120, "t17-empty"),
    br!(17, 200, "t17-10bytes"),
    br!(17, 816, "t17-87bytes"),
    br!(18, 168, "t18-sotdma", &[(148, 1, 0)]),
    br!(18, 168, "t18-itdma", &[(148, 1, 1)]),
    br!(19, 312, "t19"),
    br!(20, 72, "t20-1"),
    br!(20, 104, "t20-2"),
    br!(20, 136, "t20-3"),
    br!(20, 160, "t20-4"),
    br!(21, 272, "t21"),
    br!(24, 160, "t24-A160", &[(38, 2, 0)]),
    br!(24, 168, "t24-A168", &[(38, 2, 0)]),
    br!(24, 168, "t24-B", &[(38, 2, 1)]),
    br!(24, 168, "t24-part2", &[(38, 2, 2)]),
    br!(24, 168, "t24-part3", &[(38, 2, 3)]),
    br!(27, 96, "t27"),
];

/// text-bearing branches of types 12/14 beyond the 20-character capacity of the
/// no-allocator build (judged by the capacity rule there)
pub const LONG_TEXT_BRANCHES: &[Branch] = &[
    br!(12, 198, "t12-21chars"),
    br!(12, 222, "t12-25chars"),
    br!(12, 1008, "t12-156chars"),
    br!(14, 166, "t14-21chars"),
    br!(14, 190, "t14-25chars"),
    br!(14, 1006, "t14-161chars"),
    br!(6, 1048, "t6-120bytes"),
    br!(8, 1016, "t8-120bytes"),
    br!(17, 1080, "t17-120bytes"),
];

/// MMSIs with a meaning of their own in the maritime numbering plan (ITU-R M.585): search and
/// rescue transmitters 970, man overboard 972, EPIRB 974, aids to navigation 99, craft associated
/// with a parent ship 98, SAR aircraft 111, coast stations 00, groups 0, handheld 8; plus the
/// numeric extremes. Decoding of any other field must not depend on the sender's number.
pub const SPECIAL_MMSI: [u32; 18] = [
    970_123_456, 970_000_000, 970_999_999, 972_000_001, 974_999_999, 992_351_000, 982_351_234, 111_232_506, 2_320_001, 23_200_001,
    812_345_678, 0, 1, 999_999_999, 1_000_000_000, (1 << 30) - 1, 200_000_000, 799_999_999,
];

pub fn gen_message(b: &Branch, r: &mut Rng) -> Bits {
    let mut bits = Bits::random(b.len, r);
    bits.put(0, 6, b.t as u64);
    for (s, w, v) in b.force {
        bits.put(*s, *w, *v);
    }
    bits
}

/// how the message reaches `messages::parse`
#[derive(Clone, Copy, Debug, PartialEq, Eq)]
pub enum Via {
    /// raw buffer, zero padded to whole bytes
    Raw,
    /// armored characters + fill, through `unarmor`
    Armor,
    /// full NMEA sentence through `AisParser::parse(line, true)`
    Line,
    /// raw buffer handed to the per-type `AisMessageType::parse` of the announced type (the other
    /// public decoding route); falls back to `Raw` for type values without a message struct
    Direct,
    /// 2..5 in-order fragments, each line dressed independently (talker, VDM/VDO, delimiter,
    /// tag block, channel, leading zeros, non-final fill counts, decode flag of non-final lines),
    /// inert lines in between: by C05 the result must be the unfragmented decode
    Group,
}

/// the buffer `messages::parse` will see for a message transmitted as armored characters
pub fn armored_view(bits: &Bits) -> (Vec<u8>, u8, Bits) {
    // the sender's padding bits are ones in half of the cases (chosen by a content bit):
    // the fill count says they are not payload, so nothing of them may reach the message
    let (chars, fill) = bits.to_armor_pad(bits.get(10));
    let view = crate::armor::unarmored_bits(&chars, fill as usize).unwrap();
    (chars, fill, view)
}

/// lines that must leave no trace in a parser (C17), used to dirty it before a decode
pub fn dirty_lines() -> Vec<(Vec<u8>, bool)> {
    vec![
        (crate::nmea_ref::mk(1, 1, None, b"wwwwwwwwwwwwwwwwwwwwwwwwwwwwwwwwwwwwwwwwwwwwwwwwwwwwwwww~", 0), true),
        (crate::nmea_ref::mk(1, 1, None, b"Fwwwwwwwwwwwwwwwwwwwwwwwwwww", 0), true),
        (crate::nmea_ref::mk(1, 1, None, b"1www", 0), true),
        (b"!AIVDM,1,1,,A,15RTgt0PAso;90TKcjM8h6g208CQ,0*00".to_vec(), true),
        (crate::nmea_ref::mk(2, 1, Some(9), b"wwwwwwwwwwwwwwwwwwwwwwwwwwwwwwwwwwwwwwwwwwwwwwwwwwwwwwwwwwwwwwwwwwwwww", 0), true),
        (crate::nmea_ref::mk(2, 2, Some(8), b"wwww", 0), true),
    ]
}

pub struct Verdict {
    pub mismatches: Vec<Mismatch>,
    /// "ok", "err", "panic"
    pub outcome: &'static str,
    pub panic: Option<mon::PanicInfo>,
    pub refout: RefOut,
}

/// Judge the result of decoding the unarmored buffer `view` against the reference model.
pub fn judge(view: &Bits, call: &MsgCall) -> Verdict {
    let refout = decode_ref(view);
    let mut mm = Vec::new();
    let (outcome, panic) = match call {
        MsgCall::Ok(_, _) => ("ok", None),
        MsgCall::Err => ("err", None),
        MsgCall::Panic(p) => ("panic", Some(p.clone())),
    };
    match (&refout, call) {
        (_, MsgCall::Panic(p)) => mm.push(Mismatch {
            key: "<call>".into(),
            prop: 1,
            expected: "a result or an error value".into(),
            observed: format!("panic '{}' at {}", p.msg, p.loc),
        }),
        (RefOut::Unsupported, MsgCall::Ok(o, _)) => mm.push(Mismatch {
            key: "variant".into(),
            prop: 9,
            expected: "error (unsupported type)".into(),
            observed: o.variant.into(),
        }),
        (RefOut::TooShort(why), MsgCall::Ok(o, _)) => mm.push(Mismatch {
            key: "length".into(),
            prop: 14,
            expected: format!("error ({})", why),
            observed: format!("Ok({})", o.variant),
        }),
        (RefOut::Msg(r), MsgCall::Ok(o, _)) => {
            mm = compare(r, o);
        }
        (RefOut::Msg(r), MsgCall::Err) => {
            let cap_exempt = mon::is_noalloc() && r.caps.over();
            if r.must_ok && !cap_exempt {
                // a message of a specification-legal length that is not decoded at all fails
                // every property about decoded content: owned by whichever check sees it (0)
                mm.push(Mismatch {
                    key: "rejected".into(),
                    prop: 0,
                    expected: format!("Ok({}) at a specification-legal length of {} bits", r.variant, view.len()),
                    observed: "error".into(),
                });
            }
        }
        _ => {}
    }
    Verdict { mismatches: mm, outcome, panic, refout }
}

/// Run one message through `ais` by the chosen route, judge it, and record violations
/// for mismatches owned by `prop` (None: all). Returns the verdict for further inspection.
pub fn run_message(
    rep: &mut Report,
    pid: &str,
    prop: Option<Prop>,
    bits: &Bits,
    via: Via,
    ctxname: &str,
) -> Verdict {
    run_message_mask(rep, pid, prop.map_or(u32::MAX, |p| 1u32 << p), bits, via, ctxname)
}

/// bit mask of owned properties (bit p = property Cp)
pub fn pm(props: &[Prop]) -> u32 {
    props.iter().fold(0, |m, p| m | (1u32 << p))
}

pub fn run_message_mask(
    rep: &mut Report,
    pid: &str,
    mask: u32,
    bits: &Bits,
    via: Via,
    ctxname: &str,
) -> Verdict {
    rep.eval();
    let (view, call, replay): (Bits, MsgCall, crate::json::J) = match via {
        Via::Raw => {
            let buf = bits.to_bytes();
            let view = Bits::from_bytes(&buf);
            let call = mon::call_message(&buf);
            (view, call, mon::replay_message(&buf, ctxname))
        }
        Via::Direct => {
            let buf = bits.to_bytes();
            let view = Bits::from_bytes(&buf);
            let call = mon::call_message_direct(&buf).unwrap_or_else(|| mon::call_message(&buf));
            (view, call, mon::replay_message(&buf, ctxname))
        }
        Via::Armor => {
            let (chars, fill, view) = armored_view(bits);
            let call = match mon::call_unarmor(&chars, fill as usize) {
                Ok(Some(buf)) => mon::call_message(&buf),
                Ok(None) => MsgCall::Err,
                Err(p) => MsgCall::Panic(p),
            };
            (view, call, mon::replay_unarmor(&chars, fill as usize, ctxname))
        }
        Via::Line => {
            let (chars, fill, view) = armored_view(bits);
            let line = crate::nmea_ref::mk(1, 1, None, &chars, fill);
            let mut p = mon::Parser::new();
            let mut hist: Vec<(Vec<u8>, bool)> = Vec::new();
            // half of the cases (chosen by a content bit) run on a parser that has just seen
            // lines which must leave no trace: a payload that fails half-way through
            // unarmoring, an undecodable type, a short message, a bad checksum, and an
            // abandoned fragment - all with decoding requested
            if bits.get(9) == 1 {
                // every kind of inert line is the last one before the judged line in some
                // cases (rotation chosen by further content bits)
                let mut dl = dirty_lines();
                let rot = (bits.uint(11, 3) as usize) % dl.len();
                dl.rotate_left(rot);
                for (l, d) in dl {
                    let _ = p.parse(&l, d);
                    hist.push((l, d));
                }
            }
            // three cases in eight first decode, on the same parser, a near relative of the judged
            // payload (unfragmented, hence inert): the same characters under another fill count,
            // the same with the last character changed, or the payload without its last character
            let h = crate::rng::fnv(&chars);
            let rel: Option<(Vec<u8>, u8)> = match h % 8 {
                0 => Some((chars.clone(), ((fill as u64 + 1 + (h >> 8) % 5) % 6) as u8)),
                1 => {
                    let mut c = chars.clone();
                    if let Some(l) = c.last_mut() {
                        *l = if *l == b'w' { b'0' } else { b'w' };
                    }
                    Some((c, fill))
                }
                2 if chars.len() > 1 => Some((chars[..chars.len() - 1].to_vec(), 0)),
                _ => None,
            };
            if let Some((c, f)) = rel {
                let l = crate::nmea_ref::mk(1, 1, None, &c, f);
                let _ = p.parse(&l, true);
                hist.push((l, true));
            }
            hist.push((line.clone(), true));
            let call = match p.parse(&line, true) {
                mon::Call::Done(crate::observe::Outcome::Complete(s)) => match (s.message, s.message_debug) {
                    (Some(m), Some(d)) => MsgCall::Ok(m, d),
                    _ => MsgCall::Err,
                },
                mon::Call::Done(_) => MsgCall::Err,
                mon::Call::Panic(pi) => MsgCall::Panic(pi),
            };
            (view, call, mon::replay_history(&hist, ctxname))
        }
        Via::Group => {
            use crate::workloads::common::{dress, inert_between};
            let (chars, fill, view) = armored_view(bits);
            let mut r = crate::rng::Rng::new(crate::rng::fnv(&chars) ^ 0x6772_6f75_70);
            let mut p = mon::Parser::new();
            let mut hist: Vec<(Vec<u8>, bool)> = Vec::new();
            if r.bool() {
                for (l, d) in dirty_lines() {
                    let _ = p.parse(&l, d);
                    hist.push((l, d));
                }
            }
            // a near relative decoded first on the same parser (see Via::Line)
            match r.below(6) {
                0 => {
                    let l = crate::nmea_ref::mk(1, 1, None, &chars, ((fill as u64 + 1 + r.below(5)) % 6) as u8);
                    let _ = p.parse(&l, true);
                    hist.push((l, true));
                }
                1 if chars.len() > 1 => {
                    let l = crate::nmea_ref::mk(1, 1, None, &chars[..chars.len() - 1], 0);
                    let _ = p.parse(&l, true);
                    hist.push((l, true));
                }
                _ => {}
            }
            let parts = if chars.len() < 2 { 1 } else { r.usize(2, 5.min(chars.len())) };
            let mut cuts: Vec<usize> = Vec::new();
            while cuts.len() + 1 < parts {
                let c = r.usize(1, chars.len() - 1);
                if !cuts.contains(&c) {
                    cuts.push(c);
                }
            }
            cuts.sort();
            cuts.push(chars.len());
            let id = *r.pick(&[None, Some(0u8), Some(3), Some(9), Some(17), Some(255)]);
            let n = parts as u8;
            let mut prev = 0usize;
            let mut call = MsgCall::Err;
            for (j, end) in cuts.iter().enumerate() {
                let k = (j + 1) as u8;
                let mut b = crate::nmea_ref::Build::simple(n, k, if n == 1 { None } else { id }, b"A", &chars[prev..*end], if k == n { fill } else { 0 });
                prev = *end;
                dress(&mut r, &mut b, k < n);
                if j > 0 && r.chance(1, 3) {
                    let (l, d, _) = inert_between(&mut r, id, n, k);
                    let _ = p.parse(&l, d);
                    hist.push((l, d));
                }
                let d = if k < n { r.bool() } else { true };
                let line = b.line();
                hist.push((line.clone(), d));
                match p.parse(&line, d) {
                    mon::Call::Done(crate::observe::Outcome::Incomplete(_)) if k < n => {}
                    mon::Call::Done(crate::observe::Outcome::Complete(s)) if k == n => {
                        if let (Some(m), Some(dbg)) = (s.message, s.message_debug) {
                            call = MsgCall::Ok(m, dbg);
                        }
                    }
                    mon::Call::Panic(pi) => {
                        call = MsgCall::Panic(pi);
                        break;
                    }
                    // a non-final fragment that is not Incomplete, or a final one that is not
                    // Complete: the message was not delivered
                    mon::Call::Done(_) => break,
                }
            }
            (view, call, mon::replay_history(&hist, ctxname))
        }
    };
    let v = judge(&view, &call);
    rep.sample(4, || {
        let mut o = crate::json::J::obj();
        o.set("context", crate::json::J::s(ctxname));
        o.set("route", crate::json::J::s(&format!("{:?}", via)));
        o.set("bits_seen_by_decoder", crate::json::J::i(view.len() as u64));
        o.set("armored", crate::json::J::bytes(&bits.to_armor().0[..bits.to_armor().0.len().min(60)]));
        o.set("reference", crate::json::J::s(&match &v.refout {
            RefOut::Msg(m) => format!("{} ({} fields, must accept: {})", m.variant, m.f.len(), m.must_ok),
            other => format!("{:?}", other),
        }));
        o.set("observed", crate::json::J::s(v.outcome));
        o.set("mismatches", crate::json::J::i(v.mismatches.len() as u64));
        o
    });
    let mut reported = false;
    for m in &v.mismatches {
        let owned = m.prop <= 1 || (mask >> m.prop) & 1 == 1;
        if owned {
            if !reported {
                let t = view.uint(0, 6);
                let sig = if m.prop == 0 {
                    format!("t{}:legal-length-rejected", t)
                } else if m.prop == 1 {
                    format!("panic@{}", v.panic.as_ref().map(|p| p.loc.clone()).unwrap_or_default())
                } else {
                    format!("t{}:{}", t, m.key)
                };
                let detail = format!(
                    "type {} {} ({} bits seen by the decoder, via {:?}): field {} expected {} observed {}",
                    t, ctxname, view.len(), via, m.key, m.expected, m.observed
                );
                let rp = replay.clone();
                rep.violation(pid, sig, detail, || rp);
                reported = true;
            }
        } else {
            rep.count("other_property_disagreements");
        }
    }
    v
}
