//! The only module that names `ais` types: flattens what the code under test returned
//! into configuration-independent observations, using public fields and methods only.

use crate::val::*;
use ais::messages::radio_status::{RadioStatus, SubMessage, SyncState};
use ais::messages::AisMessage;
use ais::sentence::{AisFragments, AisReportType, AisSentence, TalkerId};

fn sync(s: &SyncState) -> u8 {
    match s {
        SyncState::UtcDirect => 0,
        SyncState::UtcIndirect => 1,
        SyncState::BaseStation => 2,
        SyncState::NumberOfReceivedStations => 3,
        SyncState::Unknown(x) => 100u8.wrapping_add(*x),
    }
}

fn comm(r: &RadioStatus) -> Val {
    Val::Comm(match r {
        RadioStatus::Sotdma(m) => Comm::Sotdma {
            sync: sync(&m.sync_state),
            timeout: m.slot_timeout,
            sub: match &m.sub_message {
                SubMessage::SlotOffset(x) => Sub::Offset(*x as i64),
                SubMessage::UtcHourAndMinute(h, mi) => Sub::Utc(*h, *mi),
                SubMessage::SlotNumber(x) => Sub::SlotNumber(*x as u64),
                SubMessage::ReceivedStations(x) => Sub::Stations(*x as u64),
            },
        },
        RadioStatus::Itdma(m) => Comm::Itdma {
            sync: sync(&m.sync_state),
            incr: m.slot_increment as i64,
            slots: m.num_slots,
            keep: m.keep,
        },
    })
}

struct O {
    f: Vec<Obs>,
}

impl O {
    fn u<T: Into<u64>>(&mut self, key: &'static str, v: T) {
        self.f.push(Obs { key, idx: 255, val: Val::U(v.into()) });
    }
    fn ui<T: Into<u64>>(&mut self, key: &'static str, idx: usize, v: T) {
        self.f.push(Obs { key, idx: idx as u8, val: Val::U(v.into()) });
    }
    fn b(&mut self, key: &'static str, v: bool) {
        self.f.push(Obs { key, idx: 255, val: Val::B(v) });
    }
    fn ou<T: Into<u64>>(&mut self, key: &'static str, v: Option<T>) {
        self.f.push(Obs { key, idx: 255, val: Val::OU(v.map(Into::into)) });
    }
    fn oui<T: Into<u64>>(&mut self, key: &'static str, idx: usize, v: Option<T>) {
        self.f.push(Obs { key, idx: idx as u8, val: Val::OU(v.map(Into::into)) });
    }
    fn f(&mut self, key: &'static str, v: Option<f32>) {
        self.f.push(Obs { key, idx: 255, val: Val::F(v) });
    }
    fn t(&mut self, key: &'static str, v: &str) {
        self.f.push(Obs { key, idx: 255, val: Val::T(v.to_string()) });
    }
    fn y(&mut self, key: &'static str, v: &[u8]) {
        self.f.push(Obs { key, idx: 255, val: Val::Y(v.to_vec()) });
    }
    fn n<T: core::fmt::Debug>(&mut self, key: &'static str, v: &T) {
        self.f.push(Obs { key, idx: 255, val: Val::N(format!("{:?}", v)) });
    }
    fn v(&mut self, key: &'static str, val: Val) {
        self.f.push(Obs { key, idx: 255, val });
    }
}

pub fn variant_name(m: &AisMessage) -> &'static str {
    match m {
        AisMessage::PositionReport(_) => "PositionReport",
        AisMessage::BaseStationReport(_) => "BaseStationReport",
        AisMessage::BinaryBroadcastMessage(_) => "BinaryBroadcastMessage",
        AisMessage::Interrogation(_) => "Interrogation",
        AisMessage::StaticAndVoyageRelatedData(_) => "StaticAndVoyageRelatedData",
        AisMessage::DgnssBroadcastBinaryMessage(_) => "DgnssBroadcastBinaryMessage",
        AisMessage::StandardClassBPositionReport(_) => "StandardClassBPositionReport",
        AisMessage::ExtendedClassBPositionReport(_) => "ExtendedClassBPositionReport",
        AisMessage::DataLinkManagementMessage(_) => "DataLinkManagementMessage",
        AisMessage::AidToNavigationReport(_) => "AidToNavigationReport",
        AisMessage::StaticDataReport(_) => "StaticDataReport",
        AisMessage::UtcDateResponse(_) => "UtcDateResponse",
        AisMessage::StandardAircraftPositionReport(_) => "StandardAircraftPositionReport",
        AisMessage::AssignmentModeCommand(_) => "AssignmentModeCommand",
        AisMessage::BinaryAcknowledgeMessage(_) => "BinaryAcknowledgeMessage",
        AisMessage::UtcDateInquiry(_) => "UtcDateInquiry",
        AisMessage::AddressedSafetyRelatedMessage(_) => "AddressedSafetyRelatedMessage",
        AisMessage::SafetyRelatedBroadcastMessage(_) => "SafetyRelatedBroadcastMessage",
        AisMessage::SafetyRelatedAcknowledgment(_) => "SafetyRelatedAcknowledgment",
        AisMessage::LongRangeAisBroadcastMessage(_) => "LongRangeAisBroadcastMessage",
        AisMessage::BinaryAddressedMessage(_) => "BinaryAddressedMessage",
    }
}

fn rot(r: &Option<ais::messages::navigation::RateOfTurn>) -> Val {
    use ais::messages::navigation::Direction;
    Val::Rot(r.map(|x| {
        let d = match x.direction() {
            None => 0,
            Some(Direction::Starboard) => 1,
            Some(Direction::Port) => -1,
        };
        (d, x.rate())
    }))
}

pub fn message(m: &AisMessage) -> ObsMsg {
    let mut o = O { f: Vec::with_capacity(24) };
    macro_rules! common {
        ($r:expr) => {
            o.u("message_type", $r.message_type);
            o.u("repeat_indicator", $r.repeat_indicator);
            o.u("mmsi", $r.mmsi);
        };
    }
    match m {
        AisMessage::PositionReport(r) => {
            common!(r);
            o.n("navigation_status", &r.navigation_status);
            o.v("rate_of_turn", rot(&r.rate_of_turn));
            o.f("speed_over_ground", r.speed_over_ground);
            o.n("position_accuracy", &r.position_accuracy);
            o.f("longitude", r.longitude);
            o.f("latitude", r.latitude);
            o.f("course_over_ground", r.course_over_ground);
            o.ou("true_heading", r.true_heading);
            o.u("timestamp", r.timestamp);
            o.n("maneuver_indicator", &r.maneuver_indicator);
            o.b("raim", r.raim);
            o.v("radio_status", comm(&r.radio_status));
        }
        AisMessage::BaseStationReport(r) => {
            common!(r);
            o.ou("year", r.year);
            o.ou("month", r.month);
            o.ou("day", r.day);
            o.u("hour", r.hour);
            o.ou("minute", r.minute);
            o.ou("second", r.second);
            o.n("fix_quality", &r.fix_quality);
            o.f("longitude", r.longitude);
            o.f("latitude", r.latitude);
            o.n("epfd_type", &r.epfd_type);
            o.b("raim", r.raim);
            o.v("radio_status", comm(&r.radio_status));
        }
        AisMessage::UtcDateResponse(r) => {
            common!(r);
            o.ou("year", r.year);
            o.ou("month", r.month);
            o.ou("day", r.day);
            o.u("hour", r.hour);
            o.ou("minute", r.minute);
            o.ou("second", r.second);
            o.n("fix_quality", &r.fix_quality);
            o.f("longitude", r.longitude);
            o.f("latitude", r.latitude);
            o.n("epfd_type", &r.epfd_type);
            o.b("raim", r.raim);
            o.v("radio_status", comm(&r.radio_status));
        }
        AisMessage::StaticAndVoyageRelatedData(r) => {
            common!(r);
            o.u("ais_version", r.ais_version);
            o.u("imo_number", r.imo_number);
            o.t("callsign", r.callsign.as_str());
            o.t("vessel_name", r.vessel_name.as_str());
            o.n("ship_type", &r.ship_type);
            o.u("dimension_to_bow", r.dimension_to_bow);
            o.u("dimension_to_stern", r.dimension_to_stern);
            o.u("dimension_to_port", r.dimension_to_port);
            o.u("dimension_to_starboard", r.dimension_to_starboard);
            o.n("epfd_type", &r.epfd_type);
            o.ou("eta_month_utc", r.eta_month_utc);
            o.ou("eta_day_utc", r.eta_day_utc);
            o.u("eta_hour_utc", r.eta_hour_utc);
            o.ou("eta_minute_utc", r.eta_minute_utc);
            o.f("draught", Some(r.draught));
            o.t("destination", r.destination.as_str());
            o.n("dte", &r.dte);
        }
        AisMessage::BinaryAddressedMessage(r) => {
            common!(r);
            o.u("seqno", r.seqno);
            o.u("dest_mmsi", r.dest_mmsi);
            o.b("retransmit", r.retransmit);
            o.u("dac", r.dac);
            o.u("fid", r.fid);
            o.y("data", &r.data[..]);
        }
        AisMessage::BinaryAcknowledgeMessage(r) => {
            common!(r);
            o.u("acks.len", r.acks.len() as u64);
            for (i, a) in r.acks.iter().enumerate() {
                o.ui("acks.mmsi", i, a.mmsi);
                o.ui("acks.seq", i, a.seq_num);
            }
        }
        AisMessage::SafetyRelatedAcknowledgment(r) => {
            common!(r);
            o.u("acks.len", r.acks.len() as u64);
            for (i, a) in r.acks.iter().enumerate() {
                o.ui("acks.mmsi", i, a.mmsi);
                o.ui("acks.seq", i, a.seq_num);
            }
        }
        AisMessage::BinaryBroadcastMessage(r) => {
            common!(r);
            o.u("dac", r.dac);
            o.u("fid", r.fid);
            o.y("data", &r.data[..]);
        }
        AisMessage::StandardAircraftPositionReport(r) => {
            common!(r);
            o.ou("altitude", r.altitude);
            o.f("speed_over_ground", r.speed_over_ground);
            o.n("position_accuracy", &r.position_accuracy);
            o.f("longitude", r.longitude);
            o.f("latitude", r.latitude);
            o.f("course_over_ground", r.course_over_ground);
            o.u("timestamp", r.timestamp);
            o.n("dte", &r.dte);
            o.n("assigned_mode", &r.assigned_mode);
            o.b("raim", r.raim);
            o.v("radio_status", comm(&r.radio_status));
        }
        AisMessage::UtcDateInquiry(r) => {
            common!(r);
            o.u("dest_mmsi", r.dest_mmsi);
        }
        AisMessage::AddressedSafetyRelatedMessage(r) => {
            common!(r);
            o.u("seqno", r.seqno);
            o.u("dest_mmsi", r.dest_mmsi);
            o.b("retransmit", r.retransmit);
            o.t("text", r.text.as_str());
        }
        AisMessage::SafetyRelatedBroadcastMessage(r) => {
            common!(r);
            o.t("text", r.text.as_str());
        }
        AisMessage::Interrogation(r) => {
            common!(r);
            o.u("stations.len", r.stations.len() as u64);
            for (i, s) in r.stations.iter().enumerate() {
                o.ui("st.mmsi", i, s.mmsi);
                o.ui("st.msgs.len", i, s.messages.len() as u64);
                for (j, m) in s.messages.iter().enumerate() {
                    o.ui("st.msg.type", i * 2 + j, m.message_type);
                    o.oui("st.msg.offset", i * 2 + j, m.slot_offset);
                }
            }
        }
        AisMessage::AssignmentModeCommand(r) => {
            common!(r);
            o.u("mmsi1", r.mmsi1);
            o.u("offset1", r.offset1);
            o.u("increment1", r.increment1);
            o.ou("mmsi2", r.mmsi2);
            o.ou("offset2", r.offset2);
            o.ou("increment2", r.increment2);
        }
        AisMessage::DgnssBroadcastBinaryMessage(r) => {
            common!(r);
            o.f("longitude", r.longitude);
            o.f("latitude", r.latitude);
            o.u("dg.message_type", r.payload.message_type);
            o.u("dg.station_id", r.payload.station_id);
            o.u("dg.z_count", r.payload.z_count);
            o.u("dg.sequence_number", r.payload.sequence_number);
            o.u("dg.n", r.payload.n);
            o.u("dg.health", r.payload.health);
            o.y("dg.data", &r.payload.data[..]);
        }
        AisMessage::StandardClassBPositionReport(r) => {
            common!(r);
            o.f("speed_over_ground", r.speed_over_ground);
            o.n("position_accuracy", &r.position_accuracy);
            o.f("longitude", r.longitude);
            o.f("latitude", r.latitude);
            o.f("course_over_ground", r.course_over_ground);
            o.ou("true_heading", r.true_heading);
            o.u("timestamp", r.timestamp);
            o.n("cs_unit", &r.cs_unit);
            o.b("has_display", r.has_display);
            o.b("has_dsc", r.has_dsc);
            o.b("whole_band", r.whole_band);
            o.b("accepts_message_22", r.accepts_message_22);
            o.n("assigned_mode", &r.assigned_mode);
            o.b("raim", r.raim);
            o.v("radio_status", comm(&r.radio_status));
        }
        AisMessage::ExtendedClassBPositionReport(r) => {
            common!(r);
            o.f("speed_over_ground", r.speed_over_ground);
            o.n("position_accuracy", &r.position_accuracy);
            o.f("longitude", r.longitude);
            o.f("latitude", r.latitude);
            o.f("course_over_ground", r.course_over_ground);
            o.ou("true_heading", r.true_heading);
            o.u("timestamp", r.timestamp);
            o.t("name", r.name.as_str());
            o.n("type_of_ship_and_cargo", &r.type_of_ship_and_cargo);
            o.u("dimension_to_bow", r.dimension_to_bow);
            o.u("dimension_to_stern", r.dimension_to_stern);
            o.u("dimension_to_port", r.dimension_to_port);
            o.u("dimension_to_starboard", r.dimension_to_starboard);
            o.n("epfd_type", &r.epfd_type);
            o.b("raim", r.raim);
            o.n("dte", &r.dte);
            o.n("assigned_mode", &r.assigned_mode);
        }
        AisMessage::DataLinkManagementMessage(r) => {
            common!(r);
            o.u("res.len", r.reservations.len() as u64);
            for (i, s) in r.reservations.iter().enumerate() {
                o.ui("res.offset", i, s.offset);
                o.ui("res.num_slots", i, s.num_slots);
                o.ui("res.timeout", i, s.timeout);
                o.ui("res.increment", i, s.increment);
            }
        }
        AisMessage::AidToNavigationReport(r) => {
            common!(r);
            o.n("aid_type", &r.aid_type);
            o.t("name", r.name.as_str());
            o.n("accuracy", &r.accuracy);
            o.f("longitude", r.longitude);
            o.f("latitude", r.latitude);
            o.u("dimension_to_bow", r.dimension_to_bow);
            o.u("dimension_to_stern", r.dimension_to_stern);
            o.u("dimension_to_port", r.dimension_to_port);
            o.u("dimension_to_starboard", r.dimension_to_starboard);
            o.n("epfd_type", &r.epfd_type);
            o.u("utc_second", r.utc_second);
            o.b("off_position", r.off_position);
            o.u("regional_reserved", r.regional_reserved);
            o.b("raim", r.raim);
            o.b("virtual_aid", r.virtual_aid);
            o.b("assigned_mode", r.assigned_mode);
        }
        AisMessage::StaticDataReport(r) => {
            use ais::messages::static_data_report::MessagePart;
            common!(r);
            match &r.message_part {
                MessagePart::PartA { vessel_name } => {
                    o.v("part", Val::N("PartA".into()));
                    o.t("vessel_name", vessel_name.as_str());
                }
                MessagePart::PartB {
                    ship_type,
                    vendor_id,
                    model_serial,
                    unit_model_code,
                    serial_number,
                    callsign,
                    dimension_to_bow,
                    dimension_to_stern,
                    dimension_to_port,
                    dimension_to_starboard,
                } => {
                    o.v("part", Val::N("PartB".into()));
                    o.n("ship_type", ship_type);
                    o.t("vendor_id", vendor_id.as_str());
                    o.t("model_serial", model_serial.as_str());
                    o.u("unit_model_code", *unit_model_code);
                    o.u("serial_number", *serial_number);
                    o.t("callsign", callsign.as_str());
                    o.u("dimension_to_bow", *dimension_to_bow);
                    o.u("dimension_to_stern", *dimension_to_stern);
                    o.u("dimension_to_port", *dimension_to_port);
                    o.u("dimension_to_starboard", *dimension_to_starboard);
                }
                MessagePart::Unknown(p) => {
                    o.v("part", Val::N(format!("Unknown({})", p)));
                }
            }
        }
        AisMessage::LongRangeAisBroadcastMessage(r) => {
            common!(r);
            o.n("position_accuracy", &r.position_accuracy);
            o.b("raim", r.raim);
            o.n("navigation_status", &r.navigation_status);
            o.f("longitude", r.longitude);
            o.f("latitude", r.latitude);
            o.f("speed_over_ground", r.speed_over_ground);
            o.f("course_over_ground", r.course_over_ground);
            o.b("gnss_position_status", r.gnss_position_status);
        }
    }
    ObsMsg { variant: variant_name(m), f: o.f }
}

// ---------------------------------------------------------------------------
// sentence level

#[derive(Clone, Debug, PartialEq)]
pub struct ObsSentence {
    pub talker: &'static str,
    pub report: &'static str,
    pub n: u8,
    pub k: u8,
    pub id: Option<u8>,
    pub channel: Option<char>,
    pub data: Vec<u8>,
    pub fill: u8,
    pub message_type: u8,
    pub has_more: bool,
    pub is_fragment: bool,
    pub message: Option<ObsMsg>,
    /// Debug rendering of the decoded message (for canonical outcomes)
    pub message_debug: Option<String>,
}

pub fn talker_name(t: &TalkerId) -> &'static str {
    match t {
        TalkerId::AB => "AB",
        TalkerId::AD => "AD",
        TalkerId::AI => "AI",
        TalkerId::AN => "AN",
        TalkerId::AR => "AR",
        TalkerId::AS => "AS",
        TalkerId::AT => "AT",
        TalkerId::AX => "AX",
        TalkerId::BS => "BS",
        TalkerId::SA => "SA",
        TalkerId::Unknown => "Unknown",
    }
}

pub fn sentence(s: &AisSentence) -> ObsSentence {
    ObsSentence {
        talker: talker_name(&s.talker_id),
        report: match s.report_type {
            AisReportType::VDM => "VDM",
            AisReportType::VDO => "VDO",
            AisReportType::Unknown => "Unknown",
        },
        n: s.num_fragments,
        k: s.fragment_number,
        id: s.message_id,
        channel: s.channel,
        data: s.data[..].to_vec(),
        fill: s.fill_bit_count,
        message_type: s.message_type,
        has_more: s.has_more(),
        is_fragment: s.is_fragment(),
        message: s.message.as_ref().map(message),
        message_debug: s.message.as_ref().map(|m| format!("{:?}", m)),
    }
}

#[derive(Clone, Debug, PartialEq)]
pub enum ErrKind {
    Nmea,
    Checksum { expected: u8, found: u8 },
}

#[derive(Clone, Debug, PartialEq)]
pub enum Outcome {
    Complete(ObsSentence),
    Incomplete(ObsSentence),
    Err(ErrKind),
}

impl Outcome {
    pub fn is_ok(&self) -> bool {
        !matches!(self, Outcome::Err(_))
    }
    pub fn kind(&self) -> &'static str {
        match self {
            Outcome::Complete(_) => "Complete",
            Outcome::Incomplete(_) => "Incomplete",
            Outcome::Err(ErrKind::Nmea) => "ErrNmea",
            Outcome::Err(ErrKind::Checksum { .. }) => "ErrChecksum",
        }
    }
    /// Canonical, configuration-independent rendering (error texts never compared)
    pub fn canon(&self) -> String {
        fn sent(s: &ObsSentence) -> String {
            format!(
                "{}|{}|{}|{}|{:?}|{:?}|{}|{}|{}|{}",
                s.talker,
                s.report,
                s.n,
                s.k,
                s.id,
                s.channel,
                crate::json::esc_bytes(&s.data),
                s.fill,
                s.message_type,
                s.message_debug.as_deref().unwrap_or("-")
            )
        }
        match self {
            Outcome::Complete(s) => format!("C:{}", sent(s)),
            Outcome::Incomplete(s) => format!("I:{}", sent(s)),
            Outcome::Err(ErrKind::Nmea) => "E:Nmea".to_string(),
            Outcome::Err(ErrKind::Checksum { expected, found }) => {
                format!("E:Checksum({},{})", expected, found)
            }
        }
    }
}

pub fn err_kind(e: &ais::errors::Error) -> ErrKind {
    match e {
        ais::errors::Error::Nmea { .. } => ErrKind::Nmea,
        ais::errors::Error::Checksum { expected, found } => {
            ErrKind::Checksum { expected: *expected, found: *found }
        }
    }
}

pub fn outcome(r: &Result<AisFragments, ais::errors::Error>) -> Outcome {
    match r {
        Ok(AisFragments::Complete(s)) => Outcome::Complete(sentence(s)),
        Ok(AisFragments::Incomplete(s)) => Outcome::Incomplete(sentence(s)),
        Err(e) => Outcome::Err(err_kind(e)),
    }
}

/// fast accessor used by the exhaustive coordinate sweeps of C10
pub fn coords(m: &AisMessage) -> Option<(Option<f32>, Option<f32>)> {
    Some(match m {
        AisMessage::PositionReport(r) => (r.longitude, r.latitude),
        AisMessage::BaseStationReport(r) => (r.longitude, r.latitude),
        AisMessage::UtcDateResponse(r) => (r.longitude, r.latitude),
        AisMessage::StandardAircraftPositionReport(r) => (r.longitude, r.latitude),
        AisMessage::StandardClassBPositionReport(r) => (r.longitude, r.latitude),
        AisMessage::ExtendedClassBPositionReport(r) => (r.longitude, r.latitude),
        AisMessage::AidToNavigationReport(r) => (r.longitude, r.latitude),
        AisMessage::DgnssBroadcastBinaryMessage(r) => (r.longitude, r.latitude),
        AisMessage::LongRangeAisBroadcastMessage(r) => (r.longitude, r.latitude),
        _ => return None,
    })
}

/// direct ShipType conversions (C12): Debug of `parse(c)` and, when present, `u8::from` of it
pub fn ship_type_roundtrip(c: u8) -> (String, Option<u8>) {
    let p = ais::messages::types::ShipType::parse(c);
    (format!("{:?}", p), p.map(u8::from))
}

/// fast accessor used by the exhaustive communication-state sweep of C16
pub fn radio(m: &AisMessage) -> Option<Comm> {
    let r = match m {
        AisMessage::PositionReport(r) => &r.radio_status,
        AisMessage::BaseStationReport(r) => &r.radio_status,
        AisMessage::UtcDateResponse(r) => &r.radio_status,
        AisMessage::StandardAircraftPositionReport(r) => &r.radio_status,
        AisMessage::StandardClassBPositionReport(r) => &r.radio_status,
        _ => return None,
    };
    match comm(r) {
        Val::Comm(c) => Some(c),
        _ => None,
    }
}

/// Are the values two codes of an enumerated field decode to equal under the crate's own
/// `PartialEq`? (C12: distinct codes map to distinct values.) kind: 0 ship type, 1 fix
/// device, 2 navigation status, 3 manoeuvre indicator, 4 aid type
pub fn enum_codes_equal(kind: u8, a: u8, b: u8) -> bool {
    use ais::messages::aid_to_navigation_report::NavaidType;
    use ais::messages::navigation::ManeuverIndicator;
    use ais::messages::position_report::NavigationStatus;
    use ais::messages::types::{EpfdType, ShipType};
    match kind {
        0 => ShipType::parse(a) == ShipType::parse(b),
        1 => EpfdType::parse(a) == EpfdType::parse(b),
        2 => NavigationStatus::parse(a) == NavigationStatus::parse(b),
        3 => ManeuverIndicator::parse(a) == ManeuverIndicator::parse(b),
        _ => NavaidType::parse(a) == NavaidType::parse(b),
    }
}
