//! Minimal JSON value + writer (the harness has no third-party dependencies).

use std::collections::BTreeMap;

#[derive(Clone, Debug)]
pub enum J {
    Null,
    Bool(bool),
    Int(i64),
    Num(f64),
    Str(String),
    Arr(Vec<J>),
    Obj(BTreeMap<String, J>),
}

impl J {
    pub fn obj() -> J {
        J::Obj(BTreeMap::new())
    }
    pub fn set(&mut self, k: &str, v: J) -> &mut Self {
        if let J::Obj(m) = self {
            m.insert(k.to_string(), v);
        }
        self
    }
    pub fn s(x: &str) -> J {
        J::Str(x.to_string())
    }
    pub fn i(x: u64) -> J {
        J::Int(x as i64)
    }
    /// bytes rendered as a readable string: printable ASCII kept, the rest \xHH
    pub fn bytes(b: &[u8]) -> J {
        J::Str(esc_bytes(b))
    }
    pub fn hex(b: &[u8]) -> J {
        let mut s = String::with_capacity(b.len() * 2);
        for x in b {
            s.push_str(&format!("{:02x}", x));
        }
        J::Str(s)
    }
    pub fn write(&self, out: &mut String) {
        match self {
            J::Null => out.push_str("null"),
            J::Bool(b) => out.push_str(if *b { "true" } else { "false" }),
            J::Int(i) => out.push_str(&i.to_string()),
            J::Num(f) => {
                if f.is_finite() {
                    out.push_str(&format!("{}", f))
                } else {
                    out.push_str("null")
                }
            }
            J::Str(s) => write_str(s, out),
            J::Arr(a) => {
                out.push('[');
                for (i, x) in a.iter().enumerate() {
                    if i > 0 {
                        out.push(',');
                    }
                    x.write(out);
                }
                out.push(']');
            }
            J::Obj(m) => {
                out.push('{');
                for (i, (k, v)) in m.iter().enumerate() {
                    if i > 0 {
                        out.push(',');
                    }
                    write_str(k, out);
                    out.push(':');
                    v.write(out);
                }
                out.push('}');
            }
        }
    }
    pub fn to_string(&self) -> String {
        let mut s = String::new();
        self.write(&mut s);
        s
    }
}

pub fn esc_bytes(b: &[u8]) -> String {
    let mut s = String::with_capacity(b.len());
    for &c in b {
        if (0x20..0x7f).contains(&c) && c != b'\\' {
            s.push(c as char);
        } else {
            s.push_str(&format!("\\x{:02x}", c));
        }
    }
    s
}

pub fn hex_str(b: &[u8]) -> String {
    let mut s = String::with_capacity(b.len() * 2);
    for x in b {
        s.push_str(&format!("{:02x}", x));
    }
    s
}

pub fn unhex(s: &str) -> Option<Vec<u8>> {
    let b = s.as_bytes();
    if b.len() % 2 != 0 {
        return None;
    }
    let mut out = Vec::with_capacity(b.len() / 2);
    for i in (0..b.len()).step_by(2) {
        let h = (b[i] as char).to_digit(16)?;
        let l = (b[i + 1] as char).to_digit(16)?;
        out.push((h * 16 + l) as u8);
    }
    Some(out)
}

fn write_str(s: &str, out: &mut String) {
    out.push('"');
    for c in s.chars() {
        match c {
            '"' => out.push_str("\\\""),
            '\\' => out.push_str("\\\\"),
            '\n' => out.push_str("\\n"),
            '\r' => out.push_str("\\r"),
            '\t' => out.push_str("\\t"),
            c if (c as u32) < 0x20 => out.push_str(&format!("\\u{:04x}", c as u32)),
            c => out.push(c),
        }
    }
    out.push('"');
}
