//! Monitor infrastructure: panic-catching call wrappers, heartbeat watchdog, and the
//! per-shard report (evaluations, coverage classes, samples, violations).

use crate::json::J;
use crate::observe::{self, Outcome};
use std::cell::RefCell;
use std::collections::{BTreeMap, BTreeSet};
use std::io::Write;
use std::panic::{catch_unwind, AssertUnwindSafe};
use std::sync::atomic::{AtomicBool, AtomicU64, Ordering};

#[derive(Clone, Copy, PartialEq, Eq, Debug)]
pub enum Tier {
    Quick,
    Thorough,
}

#[derive(Clone, Debug)]
pub struct Ctx {
    pub check: String,
    pub tier: Tier,
    pub seed: u64,
    pub shard: u64,
    pub nshards: u64,
    /// multiplies random budgets (1.0 default; miri runs use a tiny scale)
    pub scale: f64,
}

impl Ctx {
    pub fn thorough(&self) -> bool {
        self.tier == Tier::Thorough
    }
    /// budget helper: quick/thorough counts scaled, at least 1
    pub fn budget(&self, quick: u64, thorough: u64) -> u64 {
        let b = if self.thorough() { thorough } else { quick };
        ((b as f64 * self.scale) as u64).max(1)
    }
    /// is item i of an enumerated space this shard's?
    #[inline]
    pub fn mine(&self, i: u64) -> bool {
        i % self.nshards == self.shard
    }
    pub fn rng(&self, name: &str) -> crate::rng::Rng {
        crate::rng::Rng::stream(self.seed, name, self.shard)
    }
}

pub const CFG: &str = if cfg!(feature = "cfg_both") {
    "both"
} else if cfg!(feature = "cfg_std") {
    "std"
} else if cfg!(feature = "cfg_alloc") {
    "alloc"
} else {
    "none"
};

pub fn is_noalloc() -> bool {
    CFG == "none"
}

// ---------------------------------------------------------------------------
// panic capture

#[derive(Clone, Debug)]
pub struct PanicInfo {
    pub msg: String,
    pub loc: String,
}

thread_local! {
    static LAST_PANIC: RefCell<Option<PanicInfo>> = RefCell::new(None);
}

pub fn install_panic_hook() {
    std::panic::set_hook(Box::new(|info| {
        let msg = if let Some(s) = info.payload().downcast_ref::<&str>() {
            s.to_string()
        } else if let Some(s) = info.payload().downcast_ref::<String>() {
            s.clone()
        } else {
            "<non-string panic>".to_string()
        };
        let loc = info
            .location()
            .map(|l| format!("{}:{}", l.file(), l.line()))
            .unwrap_or_else(|| "<unknown>".into());
        if !IN_CALL.load(Ordering::Relaxed) {
            // a panic outside a guarded call is a defect of the harness itself: say so loudly
            eprintln!("AISMON-HARNESS-PANIC '{}' at {}", msg, loc);
        }
        LAST_PANIC.with(|p| *p.borrow_mut() = Some(PanicInfo { msg, loc }));
    }));
}

pub static HEARTBEAT: AtomicU64 = AtomicU64::new(0);
pub static IN_CALL: AtomicBool = AtomicBool::new(false);
static TRACE: std::sync::OnceLock<Option<std::sync::Mutex<std::fs::File>>> = std::sync::OnceLock::new();

fn trace_file() -> &'static Option<std::sync::Mutex<std::fs::File>> {
    TRACE.get_or_init(|| {
        std::env::var("AISMON_TRACE").ok().map(|p| {
            std::sync::Mutex::new(
                std::fs::OpenOptions::new().create(true).write(true).truncate(true).open(p).expect("trace file"),
            )
        })
    })
}

/// in trace mode every input is flushed to a file before the call, so that the last
/// line identifies the input of a death that escapes unwinding
pub fn trace(kind: &str, data: &[u8], extra: u64) {
    if let Some(f) = trace_file() {
        // only the last input matters: the file is rewritten, not appended to (a thorough run
        // makes billions of calls)
        use std::io::{Seek, SeekFrom};
        let mut f = f.lock().unwrap();
        let _ = f.set_len(0);
        let _ = f.seek(SeekFrom::Start(0));
        if data.len() > (64 << 20) {
            let _ = writeln!(f, "{} {} {} (input of {} bytes, first 4096 shown)", kind, extra, crate::json::hex_str(&data[..4096]), data.len());
        } else {
            let _ = writeln!(f, "{} {} {}", kind, extra, crate::json::hex_str(data));
        }
        let _ = f.flush();
    }
}

/// tell the stall watchdog that the harness is alive (used while waiting for a timed probe)
pub fn beat() {
    HEARTBEAT.fetch_add(1, Ordering::Relaxed);
}

/// run f, converting a panic into Err(PanicInfo)
pub fn guard<T>(f: impl FnOnce() -> T) -> Result<T, PanicInfo> {
    IN_CALL.store(true, Ordering::Relaxed);
    let r = catch_unwind(AssertUnwindSafe(f));
    IN_CALL.store(false, Ordering::Relaxed);
    EXTRA_S.store(0, Ordering::Relaxed);
    HEARTBEAT.fetch_add(1, Ordering::Relaxed);
    match r {
        Ok(v) => Ok(v),
        Err(_) => Err(LAST_PANIC
            .with(|p| p.borrow_mut().take())
            .unwrap_or(PanicInfo { msg: "<panic>".into(), loc: "<unknown>".into() })),
    }
}

/// watchdog: a call that makes no progress for `secs` seconds is a stall; the shard
/// exits with status 3 and the driver re-runs it in trace mode to identify the input
/// extra seconds the call in progress may take on top of the base allowance: one second per MiB of
/// input (a hundred times slower than the code under test runs on an idle machine). A stall
/// verdict is a wall-clock verdict; it must not fire because an input is large or the machine busy.
static EXTRA_S: AtomicU64 = AtomicU64::new(0);

/// announce the size of the input of the next guarded call (reset when the call returns)
pub fn allow(len_bytes: usize) {
    EXTRA_S.store((len_bytes >> 20) as u64, Ordering::Relaxed);
}

pub fn start_watchdog(secs: u64) {
    std::thread::spawn(move || {
        let mut last = HEARTBEAT.load(Ordering::Relaxed);
        let mut still = 0;
        loop {
            std::thread::sleep(std::time::Duration::from_secs(1));
            let now = HEARTBEAT.load(Ordering::Relaxed);
            if now == last && IN_CALL.load(Ordering::Relaxed) {
                still += 1;
                let limit = secs + EXTRA_S.load(Ordering::Relaxed);
                if still >= limit {
                    eprintln!("AISMON-STALL no progress for {} s inside a call", limit);
                    std::process::exit(3);
                }
            } else {
                still = 0;
            }
            last = now;
        }
    });
}

// ---------------------------------------------------------------------------
// guarded calls into ais

/// Every input slice handed to `ais` is placed at a rotating offset 0..7 from an 8-aligned
/// address: what a function returns must not depend on where its input happens to lie in memory
/// (word-at-a-time implementations treat the unaligned head of a slice separately).
static ALIGN: std::sync::atomic::AtomicUsize = std::sync::atomic::AtomicUsize::new(0);

thread_local! {
    static SCRATCH: std::cell::RefCell<Vec<u64>> = std::cell::RefCell::new(Vec::new());
}

pub fn next_offset() -> usize {
    ALIGN.fetch_add(1, std::sync::atomic::Ordering::Relaxed) % 8
}

/// run `f` on a copy of `data` that starts `off` bytes after an 8-aligned address
pub fn at_offset<T>(data: &[u8], off: usize, f: impl FnOnce(&[u8]) -> T) -> T {
    // inputs of many megabytes are passed as they are (a second copy would double the memory)
    if data.len() > (8 << 20) {
        return f(data);
    }
    SCRATCH.with(|sc| {
        let mut words = match sc.try_borrow_mut() {
            Ok(w) => w,
            Err(_) => return f(data),
        };
        let need = (data.len() + 8 + 7) / 8 + 1;
        if words.len() < need {
            words.resize(need, 0);
        }
        // a Vec<u64> is 8-aligned; view it as bytes
        let bytes: &mut [u8] = unsafe { std::slice::from_raw_parts_mut(words.as_mut_ptr() as *mut u8, words.len() * 8) };
        bytes[off..off + data.len()].copy_from_slice(data);
        // poison the neighbours so that a read past either end shows in the results
        if off > 0 {
            bytes[off - 1] = 0xA5;
        }
        bytes[off + data.len()] = 0x5A;
        f(&bytes[off..off + data.len()])
    })
}

pub struct Parser {
    pub p: ais::AisParser,
    pub poisoned: bool,
}

pub enum Call {
    Done(Outcome),
    Panic(PanicInfo),
}

/// every public way to obtain a parser: `AisParser::new()` and `AisParser::default()` (which is
/// also what `mem::take` leaves behind). The harness alternates between them; a replay runs a
/// history under each.
static CTOR: std::sync::atomic::AtomicU64 = std::sync::atomic::AtomicU64::new(0);

pub fn make_parser(kind: u64) -> ais::AisParser {
    if kind % 2 == 0 {
        ais::AisParser::new()
    } else {
        ais::AisParser::default()
    }
}

thread_local! {
    static PINNED: std::cell::Cell<Option<u64>> = std::cell::Cell::new(None);
}

/// While the returned guard lives, every parser made on this thread comes from the same
/// constructor: comparisons between twin runs must not mix them.
pub struct CtorPin(Option<u64>);

pub fn pin_ctor(kind: u64) -> CtorPin {
    let prev = PINNED.with(|p| p.replace(Some(kind)));
    CtorPin(prev)
}

impl Drop for CtorPin {
    fn drop(&mut self) {
        let prev = self.0;
        PINNED.with(|p| p.set(prev));
    }
}

impl Parser {
    pub fn new() -> Self {
        let k = match PINNED.with(|p| p.get()) {
            Some(k) => k,
            None => CTOR.fetch_add(1, std::sync::atomic::Ordering::Relaxed),
        };
        Parser { p: make_parser(k), poisoned: false }
    }
    pub fn with_ctor(kind: u64) -> Self {
        Parser { p: make_parser(kind), poisoned: false }
    }
    /// opaque state token (Debug rendering; only compared for equality / counted)
    pub fn token(&self) -> String {
        format!("{:?}", self.p)
    }
    pub fn parse(&mut self, line: &[u8], decode: bool) -> Call {
        trace("L", line, decode as u64);
        let p = &mut self.p;
        let off = next_offset();
        allow(line.len());
        match guard(|| {
            at_offset(line, off, |l| {
                let r = p.parse(l, decode);
                observe::outcome(&r)
            })
        }) {
            Ok(o) => Call::Done(o),
            Err(pi) => {
                // state after a panic is arbitrary: start over with a fresh parser
                self.p = ais::AisParser::new();
                self.poisoned = true;
                Call::Panic(pi)
            }
        }
    }
    /// parse and return the raw result too (for conversions)
    pub fn parse_raw(
        &mut self,
        line: &[u8],
        decode: bool,
    ) -> Result<Result<ais::AisFragments, ais::errors::Error>, PanicInfo> {
        trace("L", line, decode as u64);
        let p = &mut self.p;
        allow(line.len());
        let r = guard(|| p.parse(line, decode));
        if r.is_err() {
            self.p = ais::AisParser::new();
            self.poisoned = true;
        }
        r
    }
}

pub fn call_unarmor(data: &[u8], fill: usize) -> Result<Option<Vec<u8>>, PanicInfo> {
    trace("U", data, fill as u64);
    call_unarmor_at(data, fill, next_offset())
}

pub fn call_unarmor_at(data: &[u8], fill: usize, off: usize) -> Result<Option<Vec<u8>>, PanicInfo> {
    allow(data.len());
    guard(|| at_offset(data, off, |d| ais::messages::unarmor(d, fill).ok().map(|v| v[..].to_vec())))
}

pub enum MsgCall {
    Ok(crate::val::ObsMsg, String),
    Err,
    Panic(PanicInfo),
}

pub fn call_message(buf: &[u8]) -> MsgCall {
    trace("M", buf, 0);
    let off = next_offset();
    allow(buf.len());
    match guard(|| at_offset(buf, off, |b| ais::messages::parse(b).ok().map(|m| (observe::message(&m), format!("{:?}", m))))) {
        Ok(Some((o, d))) => MsgCall::Ok(o, d),
        Ok(None) => MsgCall::Err,
        Err(p) => MsgCall::Panic(p),
    }
}

/// The same message through the other public route: the per-type `AisMessageType::parse` of the
/// type the first six bits announce (the route the crate's own unit tests use). `None` for a type
/// value without a message struct.
pub fn call_message_direct(buf: &[u8]) -> Option<MsgCall> {
    use ais::messages::*;
    if buf.is_empty() {
        return None;
    }
    let t = buf[0] >> 2;
    allow(buf.len());
    macro_rules! via {
        ($variant:ident, $ty:path) => {
            guard(|| <$ty as AisMessageType>::parse(buf).ok().map(|m| {
                let m = AisMessage::$variant(m);
                (observe::message(&m), format!("{:?}", m))
            }))
        };
    }
    let r = match t {
        1..=3 => via!(PositionReport, position_report::PositionReport),
        4 => via!(BaseStationReport, base_station_report::BaseStationReport),
        5 => via!(StaticAndVoyageRelatedData, static_and_voyage_related_data::StaticAndVoyageRelatedData),
        6 => via!(BinaryAddressedMessage, binary_addressed::BinaryAddressedMessage),
        7 => via!(BinaryAcknowledgeMessage, binary_acknowledge::BinaryAcknowledge),
        8 => via!(BinaryBroadcastMessage, binary_broadcast_message::BinaryBroadcastMessage),
        9 => via!(StandardAircraftPositionReport, standard_aircraft_position_report::SARPositionReport),
        10 => via!(UtcDateInquiry, utc_date_inquiry::UtcDateInquiry),
        11 => via!(UtcDateResponse, utc_date_response::UtcDateResponse),
        12 => via!(AddressedSafetyRelatedMessage, addressed_safety_related::AddressedSafetyRelatedMessage),
        13 => via!(SafetyRelatedAcknowledgment, safety_related_acknowledgment::SafetyRelatedAcknowledge),
        14 => via!(SafetyRelatedBroadcastMessage, safety_related_broadcast::SafetyRelatedBroadcastMessage),
        15 => via!(Interrogation, interrogation::Interrogation),
        16 => via!(AssignmentModeCommand, assignment_mode_command::AssignmentModeCommand),
        17 => via!(DgnssBroadcastBinaryMessage, dgnss_broadcast_binary_message::DgnssBroadcastBinaryMessage),
        18 => via!(StandardClassBPositionReport, standard_class_b_position_report::StandardClassBPositionReport),
        19 => via!(ExtendedClassBPositionReport, extended_class_b_position_report::ExtendedClassBPositionReport),
        20 => via!(DataLinkManagementMessage, data_link_management_message::DataLinkManagementMessage),
        21 => via!(AidToNavigationReport, aid_to_navigation_report::AidToNavigationReport),
        24 => via!(StaticDataReport, static_data_report::StaticDataReport),
        27 => via!(LongRangeAisBroadcastMessage, long_range_ais_broadcast::LongRangeAisBroadcastMessage),
        _ => return None,
    };
    Some(match r {
        Ok(Some((o, d))) => MsgCall::Ok(o, d),
        Ok(None) => MsgCall::Err,
        Err(p) => MsgCall::Panic(p),
    })
}

// ---------------------------------------------------------------------------
// report

#[derive(Clone, Debug)]
pub struct Violation {
    pub prop: String,
    /// short stable signature (used for known-finding classification and dedup)
    pub sig: String,
    pub detail: String,
    pub replay: J,
}

pub struct Report {
    pub evaluations: u64,
    pub classes: BTreeSet<String>,
    pub counters: BTreeMap<String, u64>,
    pub samples: Vec<J>,
    pub violations: Vec<Violation>,
    pub nviol: u64,
    pub by_sig: BTreeMap<String, u64>,
    pub tokens: BTreeSet<String>,
    pub extra: BTreeMap<String, J>,
    pub required: Vec<String>,
    max_stored_per_sig: u64,
}

impl Report {
    pub fn new() -> Self {
        Report {
            evaluations: 0,
            classes: BTreeSet::new(),
            counters: BTreeMap::new(),
            samples: Vec::new(),
            violations: Vec::new(),
            nviol: 0,
            by_sig: BTreeMap::new(),
            tokens: BTreeSet::new(),
            extra: BTreeMap::new(),
            required: Vec::new(),
            max_stored_per_sig: 3,
        }
    }
    #[inline]
    pub fn eval(&mut self) {
        self.evaluations += 1;
    }
    pub fn class(&mut self, k: String) {
        if !self.classes.contains(&k) {
            self.classes.insert(k);
        }
    }
    pub fn class_s(&mut self, k: &str) {
        if !self.classes.contains(k) {
            self.classes.insert(k.to_string());
        }
    }
    pub fn count(&mut self, k: &str) {
        self.count_n(k, 1);
    }
    pub fn count_n(&mut self, k: &str, n: u64) {
        if let Some(c) = self.counters.get_mut(k) {
            *c += n;
        } else {
            self.counters.insert(k.to_string(), n);
        }
    }
    /// a class that must be hit at least once, or the run is inconclusive
    pub fn require(&mut self, counter: &str) {
        self.required.push(counter.to_string());
    }
    pub fn sample(&mut self, max: usize, j: impl FnOnce() -> J) {
        if self.samples.len() < max {
            self.samples.push(j());
        }
    }
    pub fn token(&mut self, t: String) {
        if self.tokens.len() < 100_000 && !self.tokens.contains(&t) {
            self.tokens.insert(t);
        }
    }
    pub fn violation(&mut self, prop: &str, sig: String, detail: String, replay: impl FnOnce() -> J) {
        self.nviol += 1;
        let key = format!("{}|{}", prop, sig);
        let c = self.by_sig.entry(key).or_insert(0);
        *c += 1;
        if *c <= self.max_stored_per_sig && self.violations.len() < 400 {
            self.violations.push(Violation { prop: prop.to_string(), sig, detail, replay: replay() });
        }
    }
    pub fn to_json(&self, ctx: &Ctx, wall: f64) -> J {
        let mut j = J::obj();
        j.set("check", J::s(&ctx.check));
        j.set("cfg", J::s(CFG));
        j.set("profile", J::s(if cfg!(debug_assertions) { "chk" } else { "rel" }));
        j.set("shard", J::i(ctx.shard));
        j.set("nshards", J::i(ctx.nshards));
        j.set("seed", J::i(ctx.seed));
        j.set("evaluations", J::i(self.evaluations));
        j.set("classes", J::Arr(self.classes.iter().map(|s| J::s(s)).collect()));
        let mut c = J::obj();
        for (k, v) in &self.counters {
            c.set(k, J::i(*v));
        }
        j.set("counters", c);
        j.set("samples", J::Arr(self.samples.clone()));
        j.set("nviol", J::i(self.nviol));
        let mut bs = J::obj();
        for (k, v) in &self.by_sig {
            bs.set(k, J::i(*v));
        }
        j.set("by_sig", bs);
        j.set(
            "violations",
            J::Arr(
                self.violations
                    .iter()
                    .map(|v| {
                        let mut o = J::obj();
                        o.set("prop", J::s(&v.prop));
                        o.set("sig", J::s(&v.sig));
                        o.set("detail", J::s(&v.detail));
                        o.set("replay", v.replay.clone());
                        o
                    })
                    .collect(),
            ),
        );
        j.set("state_tokens", J::i(self.tokens.len() as u64));
        j.set("required", J::Arr(self.required.iter().map(|s| J::s(s)).collect()));
        let mut e = J::obj();
        for (k, v) in &self.extra {
            e.set(k, v.clone());
        }
        j.set("extra", e);
        j.set("wall_s", J::Num(wall));
        j
    }
}

// replay record builders ----------------------------------------------------

pub fn replay_history(lines: &[(Vec<u8>, bool)], note: &str) -> J {
    let mut o = J::obj();
    o.set("kind", J::s("history"));
    o.set("cfg", J::s(CFG));
    o.set("note", J::s(note));
    o.set(
        "lines",
        J::Arr(
            lines
                .iter()
                .map(|(l, d)| {
                    let mut x = J::obj();
                    x.set("hex", J::hex(l));
                    x.set("text", J::bytes(l));
                    x.set("decode", J::Bool(*d));
                    x
                })
                .collect(),
        ),
    );
    o
}

pub fn replay_message(buf: &[u8], note: &str) -> J {
    let mut o = J::obj();
    o.set("kind", J::s("message"));
    o.set("cfg", J::s(CFG));
    o.set("note", J::s(note));
    o.set("hex", J::hex(buf));
    let (a, f) = crate::bits::Bits::from_bytes(buf).to_armor();
    o.set("armored", J::bytes(&a));
    o.set("fill", J::i(f as u64));
    o
}

pub fn replay_unarmor(data: &[u8], fill: usize, note: &str) -> J {
    let mut o = J::obj();
    o.set("kind", J::s("unarmor"));
    o.set("cfg", J::s(CFG));
    o.set("note", J::s(note));
    o.set("hex", J::hex(data));
    o.set("text", J::bytes(data));
    o.set("fill", J::i(fill as u64));
    o
}

/// fast guarded decode returning only the coordinates (C10 exhaustive sweeps)
pub fn call_coords(buf: &[u8]) -> Result<Option<Option<(Option<f32>, Option<f32>)>>, PanicInfo> {
    guard(|| ais::messages::parse(buf).ok().map(|m| observe::coords(&m)))
}

/// fast guarded decode returning only the communication state (C16 exhaustive sweep)
pub fn call_radio(buf: &[u8]) -> Result<Option<Option<crate::val::Comm>>, PanicInfo> {
    guard(|| ais::messages::parse(buf).ok().map(|m| observe::radio(&m)))
}
