//! `aismon replay <file>`: re-execute a recorded witness against the current tree and print
//! what the reference models expect next to what the code returns.

use crate::armor;
use crate::bits::Bits;
use crate::decode_ref::decode_ref;
use crate::json::unhex;
use crate::mon::{self, Call, MsgCall, Parser};
use crate::nmea_ref::{self, Scan};
use crate::reasm_ref::Reasm;
use crate::val::RefOut;

/// tiny extractor for the flat JSON the harness itself writes
fn str_field(s: &str, key: &str) -> Option<String> {
    let pat = format!("\"{}\":", key);
    let mut i = s.find(&pat)? + pat.len();
    while s[i..].starts_with(' ') {
        i += 1;
    }
    if !s[i..].starts_with('"') {
        return None;
    }
    i += 1;
    let mut out = String::new();
    let mut esc = false;
    for c in s[i..].chars() {
        if esc {
            out.push(c);
            esc = false;
        } else if c == '\\' {
            esc = true;
        } else if c == '"' {
            break;
        } else {
            out.push(c);
        }
    }
    Some(out)
}

fn int_field(s: &str, key: &str) -> Option<u64> {
    let pat = format!("\"{}\":", key);
    let mut i = s.find(&pat)? + pat.len();
    while s[i..].starts_with(' ') {
        i += 1;
    }
    let d: String = s[i..].chars().take_while(|c| c.is_ascii_digit()).collect();
    d.parse().ok()
}

fn all_lines(s: &str) -> Vec<(Vec<u8>, bool)> {
    // occurrences of {"decode":bool,"hex":"..",...}
    let mut v = Vec::new();
    let mut rest = s;
    while let Some(i) = rest.find("\"decode\":") {
        let after = rest[i + 9..].trim_start();
        let decode = after.starts_with("true");
        if let Some(h) = str_field(after, "hex") {
            if let Some(b) = unhex(&h) {
                v.push((b, decode));
            }
        }
        rest = &after[1..];
    }
    v
}

pub fn replay(path: &str) -> i32 {
    let s = match std::fs::read_to_string(path) {
        Ok(s) => s,
        Err(e) => {
            eprintln!("cannot read {}: {}", path, e);
            return 2;
        }
    };
    let kind = str_field(&s, "kind").unwrap_or_default();
    println!("replay kind={} build={} (recorded in build {})", kind, mon::CFG, str_field(&s, "cfg").unwrap_or_default());
    match kind.as_str() {
        "history" => {
          for ctor in 0..2u64 {
            println!("-- parser obtained with {}", if ctor == 0 { "AisParser::new()" } else { "AisParser::default()" });
            let mut p = Parser::with_ctor(ctor);
            let mut m = Reasm::new();
            for (i, (l, d)) in all_lines(&s).iter().enumerate() {
                let sc = nmea_ref::scan(l);
                let exp = match &sc {
                    Scan::Accept(f) if f.tx == f.body_xor => format!("{:?}", m.expect(f.n, f.k, f.id, &f.payload)),
                    Scan::Accept(f) => format!("Err(Checksum{{expected: {}, found: {}}})", f.tx, f.body_xor),
                    other => format!("{:?}", other),
                };
                let c = p.parse(l, *d);
                let obs = match &c {
                    Call::Done(o) => o.canon(),
                    Call::Panic(pi) => format!("PANIC '{}' at {}", pi.msg, pi.loc),
                };
                if let (Scan::Accept(f), Call::Done(o)) = (&sc, &c) {
                    if f.tx == f.body_xor {
                        let seen = match o {
                            crate::observe::Outcome::Complete(_) => crate::reasm_ref::Seen::Complete,
                            crate::observe::Outcome::Incomplete(_) => crate::reasm_ref::Seen::Incomplete,
                            _ => crate::reasm_ref::Seen::Err,
                        };
                        m.advance(f.n, f.k, f.id, &f.payload, seen, *d);
                    }
                }
                println!("line {} decode={} {}", i, d, crate::json::esc_bytes(l));
                println!("   reference: {}", exp);
                println!("   observed : {}", obs);
            }
          }
            0
        }
        "message" | "unarmor" => {
            let data = str_field(&s, "hex").and_then(|h| unhex(&h)).unwrap_or_default();
            let (buf, view) = if kind == "unarmor" {
                let fill = int_field(&s, "fill").unwrap_or(0) as usize;
                println!("unarmor({:?}, {})", crate::json::esc_bytes(&data), fill);
                println!("   reference: {:?}", armor::unarmor_ref(&data, fill).map(|v| crate::json::hex_str(&v)));
                // the run that recorded this placed the input at some offset 0..7 from an aligned
                // address: show every placement whose result differs from the first
                let show = |g: &Result<Option<Vec<u8>>, mon::PanicInfo>| format!("{:?}", g.as_ref().map(|o| o.as_ref().map(|v| crate::json::hex_str(v))).map_err(|p| format!("PANIC '{}' at {}", p.msg, p.loc)));
                let first = show(&mon::call_unarmor_at(&data, fill, 0));
                for off in 1..8 {
                    let g = show(&mon::call_unarmor_at(&data, fill, off));
                    if g != first {
                        println!("   observed with the input {} byte(s) past an aligned address: {}", off, g);
                    }
                }
                let got = mon::call_unarmor_at(&data, fill, 0);
                println!("   observed : {:?}", got.as_ref().map(|o| o.as_ref().map(|v| crate::json::hex_str(v))).map_err(|p| format!("PANIC '{}' at {}", p.msg, p.loc)));
                match got {
                    Ok(Some(b)) => {
                        let v = Bits::from_bytes(&b);
                        (b, v)
                    }
                    _ => return 0,
                }
            } else {
                let v = Bits::from_bytes(&data);
                (data, v)
            };
            let r = decode_ref(&view);
            let c = mon::call_message(&buf);
            match &r {
                RefOut::Msg(m) => {
                    println!("reference: {} (must accept: {})", m.variant, m.must_ok);
                    for f in &m.f {
                        println!("   {}[{}] @{}+{} = {:?}", f.key, f.idx as i32 - if f.idx == 255 { 255 } else { 0 }, f.start, f.width, f.exp);
                    }
                }
                other => println!("reference: {:?}", other),
            }
            match &c {
                MsgCall::Ok(o, d) => {
                    println!("observed : {}", d);
                    if let RefOut::Msg(m) = &r {
                        for mm in crate::val::compare(m, o) {
                            println!("   MISMATCH C{:02} {}: expected {} observed {}", mm.prop, mm.key, mm.expected, mm.observed);
                        }
                    }
                }
                MsgCall::Err => println!("observed : Err"),
                MsgCall::Panic(pi) => println!("observed : PANIC '{}' at {}", pi.msg, pi.loc),
            }
            0
        }
        _ => {
            println!("{}", s);
            0
        }
    }
}
