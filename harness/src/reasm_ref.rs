//! Reference automaton for fragment reassembly (C05, C06), written from the property
//! statements. Deliberately no stricter than they are: mismatched fragment counts,
//! numbering outside 1 <= k <= n and the state after a failed delivery are not judged.

#[derive(Clone, Debug, PartialEq, Eq)]
pub enum St {
    /// no open group; `delivered` remembers that the last thing that happened to a group
    /// was its delivery (for coverage classes only)
    Closed { delivered: bool },
    Open { id: Option<u8>, last: u8, n: u8, acc: Vec<u8> },
    /// something outside the statements' domain was accepted: until the next opener the
    /// continuation verdicts are counted but not judged
    Ambiguous,
    /// the final fragment of an open group passed sequencing but its delivery failed in
    /// decoding. The statements do not say whether that consumes the group, so two readings
    /// are allowed: the group is gone (everything with k >= 2 is rejected), or the failed
    /// fragment does not count as accepted and the group is still open at `last`. Under
    /// either reading only a direct continuation of `last` can be accepted.
    FailedFinal { id: Option<u8>, last: u8, n: u8, acc: Vec<u8> },
}

#[derive(Clone, Debug, PartialEq, Eq)]
pub enum Expect {
    /// unfragmented or final: Complete carrying exactly this payload
    Complete(Vec<u8>),
    Incomplete,
    /// must be rejected
    Reject(&'static str),
    /// the statements allow either verdict; if it is accepted as a final, payload as given
    Either(Option<Vec<u8>>),
    /// outside the quantifier: not judged
    Unjudged,
}

#[derive(Clone, Copy, Debug, PartialEq, Eq)]
pub enum Seen {
    Complete,
    Incomplete,
    Err,
}

#[derive(Clone, Debug)]
pub struct Reasm {
    pub st: St,
}

/// line classes for the coverage matrix
pub fn line_class(st: &St, n: u8, k: u8, id: Option<u8>) -> &'static str {
    if n == 0 || k == 0 || k > n {
        return "out-of-domain";
    }
    if n == 1 {
        return "unfragmented";
    }
    if k == 1 {
        return match st {
            St::Open { id: oid, .. } if *oid == id => "opener-same-id",
            St::Open { .. } => "opener-other-id",
            _ => "opener",
        };
    }
    match st {
        St::Open { id: oid, last, n: on, .. } => {
            if *oid != id {
                "wrong-id"
            } else if k as u16 == *last as u16 + 1 {
                if *on != n {
                    "count-mismatch"
                } else if k == n {
                    "correct-final"
                } else {
                    "correct-continuation"
                }
            } else if k == *last {
                "duplicate"
            } else if k as u16 > *last as u16 + 1 {
                "skip"
            } else {
                "behind"
            }
        }
        St::Closed { delivered: true } => "stale-after-delivery",
        St::Closed { delivered: false } => "orphan",
        St::Ambiguous => "in-ambiguous",
        St::FailedFinal { id: oid, last, .. } => {
            if *oid == id && k as u16 == *last as u16 + 1 {
                "retry-after-failed-delivery"
            } else {
                "stale-after-failed-delivery"
            }
        }
    }
}

pub fn state_class(st: &St) -> &'static str {
    match st {
        St::Closed { delivered: false } => "closed-fresh",
        St::Closed { delivered: true } => "closed-after-delivery",
        St::Open { last: 1, .. } => "open-last1",
        St::Open { .. } => "open-last2plus",
        St::Ambiguous => "ambiguous",
        St::FailedFinal { .. } => "after-failed-delivery",
    }
}

impl Reasm {
    pub fn new() -> Self {
        Reasm { st: St::Closed { delivered: false } }
    }

    /// What must a well-formed, checksum-correct line with this header produce?
    pub fn expect(&self, n: u8, k: u8, id: Option<u8>, payload: &[u8]) -> Expect {
        if n == 0 || k == 0 || k > n {
            return Expect::Unjudged;
        }
        if n == 1 {
            return Expect::Complete(payload.to_vec());
        }
        if k == 1 {
            return Expect::Incomplete;
        }
        match &self.st {
            St::Ambiguous => Expect::Unjudged,
            St::FailedFinal { id: oid, last, acc, .. } => {
                if *oid == id && k as u16 == *last as u16 + 1 {
                    let mut p = acc.clone();
                    p.extend_from_slice(payload);
                    Expect::Either(if k == n { Some(p) } else { None })
                } else {
                    Expect::Reject("no fragment directly before it was accepted (the group's delivery failed)")
                }
            }
            St::Closed { delivered: true } => Expect::Reject("stale: the group was already delivered"),
            St::Closed { delivered: false } => Expect::Reject("orphan: no open group"),
            St::Open { id: oid, last, n: on, acc } => {
                if *oid != id {
                    Expect::Reject("sequence id differs from the open group")
                } else if k as u16 != *last as u16 + 1 {
                    Expect::Reject("fragment number does not directly continue the group")
                } else if *on != n {
                    let mut p = acc.clone();
                    p.extend_from_slice(payload);
                    Expect::Either(if k == n { Some(p) } else { None })
                } else if k == n {
                    let mut p = acc.clone();
                    p.extend_from_slice(payload);
                    Expect::Complete(p)
                } else {
                    Expect::Incomplete
                }
            }
        }
    }

    /// Advance the model given what was observed (needed where the model allows either).
    /// `decode_failed_possible`: decoding was requested on a final fragment, so an error
    /// may stem from the payload rather than from sequencing.
    pub fn advance(&mut self, n: u8, k: u8, id: Option<u8>, payload: &[u8], seen: Seen, decode: bool) {
        if n == 0 || k == 0 || k > n {
            if seen != Seen::Err {
                self.st = St::Ambiguous;
            }
            return;
        }
        if n == 1 {
            return;
        }
        if k == 1 {
            match seen {
                Seen::Err => {
                    // an opener may only fail for capacity reasons (no-allocator build);
                    // what the parser keeps is not specified
                    self.st = St::Ambiguous;
                }
                _ => self.st = St::Open { id, last: 1, n, acc: payload.to_vec() },
            }
            return;
        }
        let exp = self.expect(n, k, id, payload);
        match (&mut self.st, exp) {
            (St::Open { last, acc, .. }, Expect::Incomplete) => match seen {
                Seen::Incomplete => {
                    *last = k;
                    acc.extend_from_slice(payload);
                }
                Seen::Complete => self.st = St::Ambiguous,
                Seen::Err => {
                    // rejected although it continues the group (capacity in no-alloc, or a
                    // defect already reported): state unknown
                    self.st = St::Ambiguous;
                }
            },
            (St::Open { id: oid, last, n: on, acc }, Expect::Complete(_)) => match seen {
                Seen::Complete => self.st = St::Closed { delivered: true },
                Seen::Err if decode => {
                    self.st = St::FailedFinal { id: *oid, last: *last, n: *on, acc: acc.clone() }
                }
                _ => self.st = St::Ambiguous,
            },
            (St::FailedFinal { id: oid, n: on, acc, .. }, Expect::Either(_)) => match seen {
                Seen::Incomplete => {
                    let mut a = acc.clone();
                    a.extend_from_slice(payload);
                    self.st = St::Open { id: *oid, last: k, n: *on, acc: a };
                }
                Seen::Complete => self.st = St::Closed { delivered: true },
                Seen::Err => {}
            },
            (St::Open { last, acc, .. }, Expect::Either(_)) => match seen {
                Seen::Incomplete => {
                    *last = k;
                    acc.extend_from_slice(payload);
                }
                Seen::Complete => self.st = St::Closed { delivered: true },
                Seen::Err => {
                    if decode && k == n {
                        self.st = St::Ambiguous;
                    }
                }
            },
            (_, Expect::Reject(_)) => {
                if seen != Seen::Err {
                    // wrongly accepted (reported by the monitor): state unknown from here
                    self.st = St::Ambiguous;
                }
            }
            _ => {
                if seen != Seen::Err {
                    self.st = St::Ambiguous;
                }
            }
        }
    }
}
