//! Reference model of AIS payload armoring (ITU-R M.1371 / IEC 61162-1 six-bit
//! field encoding). Written from the property statement, shares no code with `ais`.

use crate::bits::Bits;

/// 6-bit value of an armoring character, None outside the alphabet
#[inline]
pub fn val(c: u8) -> Option<u8> {
    if (48..=87).contains(&c) {
        Some(c - 48)
    } else if (96..=119).contains(&c) {
        Some(c - 56)
    } else {
        None
    }
}

/// armoring character of a 6-bit value
#[inline]
pub fn chr(v: u8) -> u8 {
    let v = v & 63;
    if v < 40 {
        v + 48
    } else {
        v + 56
    }
}

/// Expected result of unarmoring: None when a byte is outside the alphabet.
pub fn unarmor_ref(s: &[u8], fill: usize) -> Option<Vec<u8>> {
    let mut bits = Bits::zeros(0);
    for c in s {
        let v = val(*c)?;
        for i in 0..6 {
            bits.v.push((v >> (5 - i)) & 1);
        }
    }
    let n = bits.v.len();
    for i in 0..fill.min(n) {
        bits.v[n - 1 - i] = 0;
    }
    Some(bits.to_bytes())
}

/// the unarmored bit view (length 8*ceil(6n/8)) as the decoder will see it
pub fn unarmored_bits(s: &[u8], fill: usize) -> Option<Bits> {
    unarmor_ref(s, fill).map(|b| Bits::from_bytes(&b))
}

pub const ALPHABET: &[u8; 64] =
    b"0123456789:;<=>?@ABCDEFGHIJKLMNOPQRSTUVW`abcdefghijklmnopqrstuvw";
