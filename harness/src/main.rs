//! aismon: runtime monitors for squidpickles/ais. One binary per build configuration
//! (cargo features cfg_std / cfg_alloc / cfg_none select the `ais` feature set).
//!
//!   aismon run <check> --tier quick|thorough --seed S --shard i --nshards n [--scale f] [--out file]
//!   aismon replay <file>
//!   aismon lines            (stdin lines -> per-line library outcome; C20 oracle)
//!   aismon selftest         (reference models against each other and the repository vectors)

mod armor;
mod bits;
mod decode_ref;
mod gen;
mod json;
mod mon;
mod nmea_ref;
mod observe;
mod reasm_ref;
mod replay;
mod rng;
mod val;
mod workloads;

use mon::{Ctx, Report, Tier};

fn arg(args: &[String], name: &str) -> Option<String> {
    args.iter().position(|a| a == name).and_then(|i| args.get(i + 1).cloned())
}

fn main() {
    let args: Vec<String> = std::env::args().collect();
    if args.len() < 2 {
        eprintln!("usage: aismon run|replay|lines|selftest ...");
        std::process::exit(2);
    }
    mon::install_panic_hook();
    match args[1].as_str() {
        "run" => {
            let check = args.get(2).cloned().unwrap_or_default();
            let tier = match arg(&args, "--tier").as_deref() {
                Some("thorough") => Tier::Thorough,
                _ => Tier::Quick,
            };
            let seed: u64 = arg(&args, "--seed").and_then(|s| s.parse().ok()).unwrap_or(1);
            let shard: u64 = arg(&args, "--shard").and_then(|s| s.parse().ok()).unwrap_or(0);
            let nshards: u64 = arg(&args, "--nshards").and_then(|s| s.parse().ok()).unwrap_or(1);
            let scale: f64 = arg(&args, "--scale").and_then(|s| s.parse().ok()).unwrap_or(1.0);
            let ctx = Ctx { check: check.clone(), tier, seed, shard, nshards, scale };
            if std::env::var("AISMON_NO_WATCHDOG").is_err() {
                mon::start_watchdog(30);
            }
            let t0 = std::time::Instant::now();
            let mut rep = Report::new();
            if !workloads::dispatch(&ctx, &mut rep) {
                eprintln!("unknown check {}", check);
                std::process::exit(2);
            }
            let j = rep.to_json(&ctx, t0.elapsed().as_secs_f64());
            let s = j.to_string();
            match arg(&args, "--out") {
                Some(p) => std::fs::write(p, s).expect("write report"),
                None => println!("{}", s),
            }
        }
        "replay" => {
            let path = args.get(2).expect("replay file");
            std::process::exit(replay::replay(path));
        }
        "lines" => {
            workloads::c20::lines_oracle();
        }
        "cfgdiff" => {
            std::process::exit(workloads::c18::cfgdiff(&args[2], &args[3], &args[4]));
        }
        "selftest" => {
            std::process::exit(workloads::selftest::run());
        }
        _ => {
            eprintln!("unknown command");
            std::process::exit(2);
        }
    }
}
