//! Bit strings kept one bit per element, so that position arithmetic in the oracles
//! shares nothing with the shift/mask arithmetic of the code under test.

use crate::rng::Rng;

#[derive(Clone, PartialEq, Eq, Debug)]
pub struct Bits {
    pub v: Vec<u8>,
}

impl Bits {
    pub fn zeros(n: usize) -> Self {
        Bits { v: vec![0; n] }
    }
    pub fn ones(n: usize) -> Self {
        Bits { v: vec![1; n] }
    }
    pub fn random(n: usize, r: &mut Rng) -> Self {
        let mut v = Vec::with_capacity(n);
        let mut x = 0u64;
        for i in 0..n {
            if i % 64 == 0 {
                x = r.next();
            }
            v.push((x & 1) as u8);
            x >>= 1;
        }
        Bits { v }
    }
    pub fn len(&self) -> usize {
        self.v.len()
    }
    /// bit i, reading zero beyond the end
    #[inline]
    pub fn get(&self, i: usize) -> u8 {
        if i < self.v.len() {
            self.v[i]
        } else {
            0
        }
    }
    pub fn set(&mut self, i: usize, b: u8) {
        if i < self.v.len() {
            self.v[i] = b & 1;
        }
    }
    /// unsigned value of bits start..start+width, MSB first (zero beyond end)
    pub fn uint(&self, start: usize, width: usize) -> u64 {
        let mut x = 0u64;
        for i in 0..width {
            x = (x << 1) | self.get(start + i) as u64;
        }
        x
    }
    /// two's complement value of the field
    pub fn sint(&self, start: usize, width: usize) -> i64 {
        let u = self.uint(start, width);
        if width == 0 {
            return 0;
        }
        if self.get(start) == 1 {
            u as i64 - (1i64 << width)
        } else {
            u as i64
        }
    }
    /// write the low `width` bits of val, MSB first; bits beyond the end are dropped
    pub fn put(&mut self, start: usize, width: usize, val: u64) {
        for i in 0..width {
            let bit = if width - 1 - i >= 64 { 0 } else { (val >> (width - 1 - i)) & 1 };
            self.set(start + i, bit as u8);
        }
    }
    pub fn truncate(&mut self, n: usize) {
        self.v.truncate(n);
    }
    pub fn extend_zeros(&mut self, n: usize) {
        while self.v.len() < n {
            self.v.push(0);
        }
    }
    pub fn extend_random(&mut self, n: usize, r: &mut Rng) {
        while self.v.len() < n {
            self.v.push((r.next() & 1) as u8);
        }
    }
    /// pack MSB first, zero padded to whole bytes
    pub fn to_bytes(&self) -> Vec<u8> {
        let nb = (self.v.len() + 7) / 8;
        let mut out = vec![0u8; nb];
        for (i, b) in self.v.iter().enumerate() {
            if *b != 0 {
                out[i / 8] |= 0x80 >> (i % 8);
            }
        }
        out
    }
    pub fn from_bytes(b: &[u8]) -> Self {
        let mut v = Vec::with_capacity(b.len() * 8);
        for byte in b {
            for i in 0..8 {
                v.push((byte >> (7 - i)) & 1);
            }
        }
        Bits { v }
    }
    /// 6-bit groups -> armored characters; returns (chars, fill) where fill is the
    /// number of padding bits added to reach a multiple of 6
    pub fn to_armor(&self) -> (Vec<u8>, u8) {
        self.to_armor_pad(0)
    }
    /// like `to_armor`, with the padding (fill) bits of the last character set to `pad`:
    /// a receiver must ignore them whatever the sender left there
    pub fn to_armor_pad(&self, pad: u8) -> (Vec<u8>, u8) {
        let n = (self.v.len() + 5) / 6;
        let fill = n * 6 - self.v.len();
        let mut padded = self.clone();
        for _ in 0..fill {
            padded.v.push(pad & 1);
        }
        let mut out = Vec::with_capacity(n);
        for c in 0..n {
            let v = padded.uint(c * 6, 6) as u8;
            out.push(crate::armor::chr(v));
        }
        (out, fill as u8)
    }
}
