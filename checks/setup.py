#!/usr/bin/env python3
"""MANIFEST.setup_cmd: build the harness in every configuration the quick checks use, and
the command-line tool, offline, from files on disk only."""
import os
import sys

sys.path.insert(0, os.path.dirname(os.path.abspath(__file__)))
import run as drv
import cli_monitor


def main():
    pairs = [(p, c) for p in ("chk", "rel") for c in ("std", "alloc", "none")]
    ok, msg = drv.build_all(pairs)
    if not ok:
        print(msg)
        return 1
    for rel in (False, True):
        ok, msg = cli_monitor.build_cli(drv, rel)
        if not ok:
            print(msg)
            return 1
    import subprocess
    rc = subprocess.run([drv.binpath("chk", "std"), "selftest"]).returncode
    if rc != 0:
        print("reference-model selftest failed")
        return 1
    print("setup ok")
    return 0


if __name__ == "__main__":
    sys.exit(main())
