#!/bin/sh
# run the repository's own suite, unedited, in its three feature sets
cd /repo || exit 2
for f in "" "--no-default-features --features alloc" "--no-default-features"; do
  out=$(cargo test --offline $f 2>&1)
  echo "$out" | grep -E "^test result" | head -1 | sed "s/^/[features: ${f:-default}] /"
  echo "$out" | grep -qE "test result: ok. 59 passed" || { echo "$out" | tail -30; exit 1; }
done
