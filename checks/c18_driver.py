"""C18: run the identical seeded workload in the std, alloc and no-allocator builds, record
per-call outcome logs, and diff them offline with `aismon cfgdiff` (rules in
harness/src/workloads/c18.rs). On a mismatch the shard is re-run in dump mode for that call
index so that the replay file carries the full input and the three outcomes."""
import concurrent.futures as cf
import json
import os
import subprocess
import time

CFGS = ["std", "alloc", "none"]


def one_shard(drv, profile, tier, seed, shard, nshards, with_both=False):
    logs = {}
    reports = {}
    for cfg in CFGS:
        logp = os.path.join(drv.WORK, "c18-%s-%s-%d-%s.log" % (profile, cfg, shard, drv.RUNID))
        j = drv.run_shard("C18", profile, cfg, tier, seed, shard, nshards, extra_env={"AISMON_LOG": logp})
        logs[cfg] = logp
        reports[cfg] = j
    res = {"shard": shard, "profile": profile, "reports": reports, "diff": None, "dumps": {}, "diff_both": None}
    if with_both:
        logb = os.path.join(drv.WORK, "c18-%s-both-%d-%s.log" % (profile, shard, drv.RUNID))
        jb = drv.run_shard("C18", profile, "both", tier, seed, shard, nshards, extra_env={"AISMON_LOG": logb})
        if jb["rc"] == 0 and reports["std"]["rc"] == 0 and reports["none"]["rc"] == 0:
            # same checker, with the std+alloc build in the place of the alloc build
            p = subprocess.run([drv.binpath(profile, "std"), "cfgdiff", logs["std"], logb, logs["none"]],
                               env=drv.ENV, stdout=subprocess.PIPE, stderr=subprocess.PIPE)
            if p.returncode == 0:
                res["diff_both"] = json.loads(p.stdout.decode())
        if os.path.exists(logb):
            os.remove(logb)
    if all(reports[c]["rc"] == 0 for c in CFGS):
        p = subprocess.run([drv.binpath(profile, "std"), "cfgdiff", logs["std"], logs["alloc"], logs["none"]],
                           env=drv.ENV, stdout=subprocess.PIPE, stderr=subprocess.PIPE)
        if p.returncode == 0:
            res["diff"] = json.loads(p.stdout.decode())
            # dump the first few mismatching calls
            for v in res["diff"]["violations"][:3]:
                idx = v["index"]
                d = {}
                for cfg in CFGS:
                    env = dict(drv.ENV)
                    env["AISMON_DUMP"] = str(idx)
                    q = subprocess.run([drv.binpath(profile, cfg), "run", "C18", "--tier", tier, "--seed", str(seed),
                                        "--shard", str(shard), "--nshards", str(nshards), "--out", "/dev/null"],
                                       env=env, stdout=subprocess.PIPE, stderr=subprocess.PIPE)
                    for line in q.stderr.decode("utf-8", "replace").splitlines():
                        if line.startswith("AISMON-DUMP "):
                            d[cfg] = json.loads(line[len("AISMON-DUMP "):])
                res["dumps"][idx] = d
        else:
            res["differr"] = p.stderr.decode("utf-8", "replace")[-500:]
    for p in logs.values():
        if os.path.exists(p):
            os.remove(p)
    return res


def run(drv, tier, seed, t0):
    pid = "C18"
    profiles = ["chk"] if tier == "quick" else ["chk", "rel"]
    pairs = [(p, c) for p in profiles for c in CFGS]
    ok, msg = drv.build_all(pairs)
    if not ok:
        print("INCONCLUSIVE: property=%s %s" % (pid, msg))
        drv.write_evidence(pid, tier, seed, {"evaluations": 0, "distinct_nontrivial": 0, "rule": drv.RULES[pid], "samples": []}, time.time() - t0, 0)
        return 2
    nshards = drv.NCPU
    # supplementary: std and alloc enabled together (cargo feature unification). Outside the three
    # configurations the property names, so a build failure of it is only noted.
    okb, _msgb = drv.build_all([(p, "both") for p in profiles])
    results = []
    with cf.ThreadPoolExecutor(max_workers=max(1, drv.NCPU // 2)) as ex:
        futs = [ex.submit(one_shard, drv, p, tier, seed, s, nshards, okb) for p in profiles for s in range(nshards)]
        for f in futs:
            results.append(f.result())
    violations, inconclusive = [], []
    jobs = []
    compared = exempt = unjudged = 0
    both_compared = 0
    diffclasses = {}
    for r in results:
        for cfg in CFGS:
            j = r["reports"][cfg]
            jobs.append(j)
            if j["rc"] != 0:
                w = drv.trace_rerun(j, "C18", tier, seed, nshards)
                if w is not None and "harness_error" in w:
                    inconclusive.append("harness error: " + w["harness_error"][-200:])
                elif w is not None:
                    w["prop"] = pid
                    violations.append(w)
                else:
                    inconclusive.append("shard %s/%s #%d exited with status %s: %s" % (j["profile"], cfg, j["shard"], j["rc"], j["stderr"][-200:]))
        d = r["diff"]
        if d is None:
            if all(r["reports"][c]["rc"] == 0 for c in CFGS):
                inconclusive.append("cfgdiff failed on shard %d: %s" % (r["shard"], r.get("differr", "")))
            continue
        db = r.get("diff_both")
        if db is not None:
            both_compared += db["compared"]
            for v in db["violations"]:
                if v["sig"] == "std-vs-alloc":
                    violations.append({"prop": pid, "sig": "std-vs-std+alloc", "detail": v["detail"].replace("alloc", "std+alloc"),
                                       "replay": {"kind": "cfgdiff", "call_index": v["index"], "shard": r["shard"], "nshards": nshards, "note": "build with features std and alloc together"},
                                       "cfg": "std+both", "profile": r["profile"], "count": 1})
                    break
        compared += d["compared"]
        exempt += d["exempt_must_err"]
        unjudged += d["unjudged"]
        for k, v in d["classes"].items():
            key = r["profile"] + "|" + k
            diffclasses[key] = diffclasses.get(key, 0) + v
        by = {}
        for v in d["violations"]:
            by.setdefault(v["sig"], []).append(v)
        for sig, vs in by.items():
            v = vs[0]
            violations.append({"prop": pid, "sig": sig, "detail": v["detail"],
                               "replay": {"kind": "cfgdiff", "call_index": v["index"], "shard": r["shard"], "nshards": nshards,
                                          "outcomes_by_build": r["dumps"].get(v["index"], {})},
                               "cfg": "std+alloc+none", "profile": r["profile"], "count": len(vs) if d["nviol"] <= 40 else d["nviol"]})
    cov, _v, inc2, counters = drv.merge_reports(jobs)
    # the harness-side reports carry no violations for C18 (the diff decides); their classes
    # describe the workload, the diff classes describe what was compared
    cov["rule"] = drv.RULES[pid]
    cov["calls_compared_across_builds"] = compared
    cov["calls_where_noalloc_must_reject"] = exempt
    cov["calls_unjudged_after_capacity_rejection"] = unjudged
    cov["diff_classes"] = diffclasses
    cov["std_plus_alloc_build"] = ({"calls_compared_with_std": both_compared} if okb else "not built (supplementary configuration; not a verdict)")
    cov["distinct_nontrivial"] = len(diffclasses)
    cov["evaluations"] = compared
    if compared == 0:
        inconclusive.append("no calls compared")
    need = ["over-group", "over-payload", "over-data", "over-text", "over-unarmor", "at-limit"]
    for n in need:
        if not any(("|" + n + "|") in k for k in diffclasses):
            inconclusive.append("capacity class '%s' never exercised" % n)
    return drv.finish(pid, tier, seed, t0, cov, violations, inconclusive + inc2)
