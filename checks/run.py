#!/usr/bin/env python3
"""Driver for the runtime monitors of squidpickles/ais.

    python3 checks/run.py <ID> [--tier quick|thorough] [--seed N] [--replay PATH]

Builds the harness (`aismon`) against /repo's current working tree in the build
configurations the property needs, runs the property's workload as shard processes,
aggregates what the monitors observed, classifies violations against
known_findings.txt, writes evidence/<ID>.json and replay files, prints
`KNOWN-FINDING:` / `VIOLATION property=<ID> replay=<path>` lines.

Exit status: 0 held on everything observed (known findings aside), 1 violation,
2 inconclusive (build failure, watchdog, coverage class never reached).
"""
import concurrent.futures as cf
import json
import os
import subprocess
import sys
import time

VERIF = os.path.dirname(os.path.dirname(os.path.abspath(__file__)))
# development overrides (mutation validation runs against scratch copies; the registered
# commands never set these)
HARNESS = os.environ.get("AISVERIF_HARNESS", os.path.join(VERIF, "harness"))
BUILD = os.environ.get("AISVERIF_BUILD", os.path.join(VERIF, ".build"))
WORK = os.environ.get("AISVERIF_WORK", os.path.join(VERIF, ".work"))
# scratch files carry the id of this invocation, so that two runs of the same check (another tier or
# seed started at the same time) never read or remove each other's shard reports
RUNID = "p%d" % os.getpid()
REPO = os.environ.get("AISVERIF_REPO", "/repo")
OUT = os.environ.get("AISVERIF_OUT", VERIF)
NCPU = min(16, os.cpu_count() or 4)

sys.path.insert(0, os.path.dirname(os.path.abspath(__file__)))

ENV = dict(os.environ)
ENV["CARGO_NET_OFFLINE"] = "true"
ENV.setdefault("CARGO_TERM_COLOR", "never")

# ----------------------------------------------------------------------------
# what each property runs: (profile, cfg) pairs per tier

ALL3 = [("chk", "std"), ("chk", "alloc"), ("chk", "none")]
TWO = [("chk", "std"), ("chk", "none")]

PLAN = {
    "C01": {"quick": ALL3 + [("rel", "std"), ("rel", "none")],
            "thorough": ALL3 + [("rel", "std"), ("rel", "alloc"), ("rel", "none")]},
    "C02": {"quick": ALL3, "thorough": ALL3},
    "C03": {"quick": ALL3, "thorough": ALL3},
    "C04": {"quick": ALL3, "thorough": ALL3},
    "C05": {"quick": ALL3, "thorough": ALL3},
    "C06": {"quick": ALL3, "thorough": ALL3},
    "C07": {"quick": ALL3, "thorough": ALL3},
    "C08": {"quick": ALL3, "thorough": ALL3},
    "C09": {"quick": ALL3, "thorough": ALL3},
    "C10": {"quick": TWO, "thorough": TWO},
    "C11": {"quick": TWO, "thorough": ALL3},
    "C12": {"quick": TWO, "thorough": ALL3},
    "C13": {"quick": ALL3, "thorough": ALL3},
    "C14": {"quick": ALL3, "thorough": ALL3},
    "C15": {"quick": ALL3, "thorough": ALL3},
    "C16": {"quick": TWO, "thorough": ALL3},
    "C17": {"quick": ALL3, "thorough": ALL3},
    "C19": {"quick": ALL3, "thorough": ALL3},
}

RULES = {
    "C01": "six generators (header-state product exhaustive over pairs/triples, grammar lines, corpus mutation, raw bytes, messages::parse x every type x every length 0..130, unarmor exhaustive to length 2) each call wrapped in catch_unwind + heartbeat; a class is (build, generator, outcome kind, decode flag) plus long groups, huge payloads, UTF-8 text, wide header numbers; Miri (none cfg) in quick, Miri x3 + ASan + region coverage in thorough; every text field under the text shapes of C13 (padding mixes, one character on padding, dictionary words cut off after every character); middle fragments of 8.5 to 17 million characters (34 M thorough) in 255-fragment groups",
    "C02": "bodies x all 256 transmitted checksum values x hex styles; every single-byte corruption at every position of the corpus; perfect next fragments with wrong checksum; a class is (build, line shape, parser state, corruption position class, reference verdict); bodies of up to 131 072 bytes (1 M thorough) in channel / payload / tag block with whole-body, power-of-two-prefix and off-by-one-bit checksums; wrong-checksum openers; std build: single lines of 2^28 / 2^29 bytes (to 2^32 thorough) with pseudo-random bulk",
    "C03": "all byte strings of length <= 2 x fill 0..5 exhaustively, length 3 over alphabet + boundary bytes, every length 5..1000 with structured contents; a class is (build, len mod 4, fill, first-invalid position class, last character class, over 512); lengths up to 524 289 characters (2.8 M and one 2^31 probe thorough); single invalid byte at power-of-two positions of strings up to 70 000; 255 .. 262 144 invalid bytes per string (2^24, 2^32 thorough) in four layouts; concurrent first use (the first unarmor calls of every process are made by 16 threads released together)",
    "C04": "per layout branch: per-field value sweeps (exhaustive for narrow fields, bit-walks/edges/random for wide), adjacent-pair corner sweeps, joint random, repository vectors with fields overwritten, all other bits re-randomised each case, three delivery routes; a class is (build, branch, field, value stratum, route); equal-pair sweeps; joint sweeps of the 20-bit month-day-hour-minute blocks (type 5 ETA fully; UTC of types 4 / 11 a quarter quick, fully thorough) and of the 17-bit hour-minute-second blocks",
    "C05": "all compositions of payloads of length 2..9, valid messages of every type split at random points into 2..9 fragments, prior-history classes, interleaved inert lines, conversions; a class is (build, fragment count, id class, prior history, interleaved kinds, decode, payload kind); per-line presentation re-drawn (talker, VDM/VDO, delimiter, relay tag blocks incl. g:, channel, leading zeros, non-final fill, checksum spelling, line ending); wrong-checksum lines of every header shape and (none) over-capacity would-be fragments between fragments; groups of 64 KiB..256 KiB",
    "C06": "every history of length 4 (5 thorough) over a 20-symbol alphabet in lock-step with the reference automaton, plus fault-injected random histories with probes; a class is a cell (build, model state class, line class, observed outcome); decode-failing payload styles (message stage / unarmor stage), jumbo fragments up to 9 MB, 70 000..131 073 accepted unfragmented sentences inside a group, dressed lines; std build: a delivered group of more than 2^28 payload bytes (2^29, 2^30 thorough)",
    "C07": "all 65 536 talker byte pairs, formatters, counts/numbers/ids 0..255 with leading zeros, every channel byte, every payload byte at first/middle/last, lengths 1..400, fill, tag block, delimiter, decode off/on on twin parsers; a class is (build, field class); named channel fields (87B, 2088, AIS1, frequencies ...); rotating prior histories; three follow-up lines per comparison observe the state both twins are left in; prior histories incl. an abandoned opener whose payload extends / is a prefix of the next opener's",
    "C08": "delete/duplicate/insert/replace/truncate at every position of valid sentences with a delimiter dictionary (all 256 bytes thorough), whole-field operations, boundary table, grammar near-misses, random bytes; a class is (build, operator, field hit, reference verdict); header numbers of up to 39 digits around 2^8..2^128; zero runs of 0..48 and up to a million digits before small values; 16 well-known junk prefixes; valid UTF-8 text with a multi-byte character at every offset 0..300 and around powers of two up to 65 536 behind five kinds of line start",
    "C09": "all 64 type values x 4 low-bit values x (valid bodies of every layout transplanted, zero/one/random bodies of every length 1..130), and through sentences with all 64 first characters; a class is (build, type, body class, outcome); mixed decode-flag histories, '1 of 0' line after every kind of group, payloads up to 350 000 characters (1.4 M thorough) under every type value; replayed deliveries (pools of valid / unsupported / undecodable payloads delivered repeatedly on one parser)",
    "C10": "coordinates: every raw value of every 18/17-bit field, stratified 28/27-bit sweeps in quick and every raw value in thorough, surrounding bits re-randomised every 256 values; speeds/courses/draught: every raw value; a class is (build, type, field, stratum)",
    "C11": "per optional field: every value for widths <= 12, sentinel +-8, extremes, the other resolution's sentinel and random values for wider ones, other optional fields at/not at their sentinel; a class is (build, branch, field, value class) and (branch, field, combination of other sentinels); calendar corners (full cross product of notable date/time values), epoch dates, special sender numbers",
    "C12": "every code of every enumerated field in every branch carrying it x random contexts, injectivity check on observed renderings, direct ShipType conversions for 0..255; a class is (build, branch, field, code); pairwise == of decoded codes; all-not-available context under every special sender number",
    "C13": "per text field: all 64 values at every position, 64^2 pairs at first/last/middle pairs, trim shapes (runs of space/@, order-sensitive tails, interior padding), random strings; safety texts at every length; a class is (build, branch, field, shape); padding runs at every power of two 64..8192 +-1 in over-long texts; fields of padding characters only in every mix, one character on a padding background at every position, dictionary words (locating-device texts, signal words, N/A ...) cut off after every character",
    "C14": "for every supported type every transmitted bit length 0..max+66 (every characters x fill pair) x random and all-ones contents by three routes, plus layout branches at legal lengths; a class is (build, type, characters, fill, reference verdict, outcome); element-count windows (2^8 / 2^16 elements of 6/8/30/32 bits)",
    "C15": "types 6/8/17: every transmitted length from below the header to beyond the protocol maximum x four content kinds (position-coded, ones, alternating, random) x routes incl. multi-fragment, header field sweeps; a class is (build, type, data bytes, fill, content, outcome); record-structured payloads (records of 2..12 bytes from a pool incl. all-zero / all-one, repeated, at every alignment); echo tails (a group X+P right after P was decoded on its own)",
    "C16": "all 2^19 communication states for types 1,2,3,4,11 and all 2^20 selector+state values for types 9,18, other bits random; a class is (build, type, selector, kind/time-out); ~750 notable states x both selectors x 96 (1 024) random contexts; every state once more in the 'no position fix' context (all optional values not available, time stamp 60..63)",
    "C17": "every history of length 4 (5 thorough) over the 20-symbol alphabet and random histories: each inert line removed in turn, all other outcomes and a probe suite compared; interleaved parser instances vs isolated runs; a class is (build, state class at removal, inert kind, position); runs of up to 131 073 inert lines (rejected or accepted unfragmented) inside a group; rejected fragments of up to 16 MiB; one constructor per comparison",
    "C18": "identical seeded call sequence (lines on long-lived parsers, messages, unarmor, capacity edges) logged in std, alloc and none builds and diffed offline; a class is (capacity class, std outcome kind, none outcome kind); every text field within capacity under the text shapes of C13",
    "C19": "all 64 armoring characters as first payload character x 4 sentence shapes x decode off/on x tag/delimiter variants; a class is (build, character, shape); decodable groups",
    "C20": "streams mixing valid sentences of every type, groups, bad checksums, malformed lines, invalid UTF-8, NULs, CRLF, long lines, every single byte, failed deliveries followed by the repeated final fragment, with chunked writes; real binary's stdout/stderr records compared with the library's per-line outcome; a class is (binary, stream class, line classes); stdin from pipe and file, lines of 2^p-1/2^p/2^p+1 bytes up to 2^26 (2^28 thorough), stop/continue (SIGSTOP/SIGCONT) injection while writing multi-megabyte records to slow pipes, independence pairs, strace order sample, valgrind (thorough); rejected lines with a multi-byte character or invalid byte straddling power-of-two offsets 64 .. 65 536",
}

_COMMON = " Common to all harness checks: parsers obtained alternately with AisParser::new() and AisParser::default(); every input slice placed at a rotating offset 0..7 from an aligned address with poisoned neighbours."
_MSG = " Message-level routes: raw buffer through messages::parse, through the per-type AisMessageType::parse, armored through unarmor, whole line (fresh or dirtied parser, near-relative payload decoded first), dressed 2..5-fragment group with inert lines. Shared strata: corner sampler (every field at a notable value 3 times in 4, special MMSIs, epoch dates, text trim shapes), wrap probe (buffers around 2^16 / 2^17 bits and 2^8 / 2^16 elements), giant-buffer probe (2^31 / 2^32 bits + 0..70 bytes)."
for _k in list(RULES):
    if _k in ("C04", "C10", "C11", "C12", "C13", "C14", "C15"):
        RULES[_k] += _MSG
    if _k != "C20":
        RULES[_k] += _COMMON

ASSUMPTIONS = {
    "default": [
        "reference models in /verif/harness/src (armor, nmea_ref, reasm_ref, decode_ref) encode ITU-R M.1371-5 and the property statements correctly",
        "held on the executions observed only: sampled spaces are not proved",
        "rustc/cargo stable toolchain and the dependency versions of /repo/Cargo.lock",
    ],
}

PROFILE_DIR = {"chk": "chk", "rel": "release"}


def log(*a):
    print(*a, file=sys.stderr, flush=True)


def binpath(profile, cfg):
    return os.path.join(BUILD, cfg, PROFILE_DIR[profile], "aismon")


def build(profile, cfg):
    """cargo build the harness for one (profile, cfg); returns (ok, message)"""
    cmd = ["cargo", "build", "--offline", "--manifest-path", os.path.join(HARNESS, "Cargo.toml"),
           "--features", "cfg_" + cfg, "--target-dir", os.path.join(BUILD, cfg)]
    if profile == "chk":
        cmd += ["--profile", "chk"]
    else:
        cmd += ["--release"]
    p = subprocess.run(cmd, env=ENV, stdout=subprocess.PIPE, stderr=subprocess.STDOUT, text=True)
    return p.returncode == 0, p.stdout[-4000:]


def build_all(pairs):
    # cargo serialises on the registry lock anyway; different target dirs build in parallel
    with cf.ThreadPoolExecutor(max_workers=3) as ex:
        res = list(ex.map(lambda pc: (pc, build(*pc)), pairs))
    for pc, (ok, msg) in res:
        if not ok:
            return False, "build of %s/%s failed:\n%s" % (pc[0], pc[1], msg)
    return True, ""


def run_shard(check, profile, cfg, tier, seed, shard, nshards, scale=None, extra_env=None, timeout=3600):
    os.makedirs(WORK, exist_ok=True)
    out = os.path.join(WORK, "%s-%s-%s-%d-%s.json" % (check, profile, cfg, shard, RUNID))
    if os.path.exists(out):
        os.remove(out)
    cmd = [binpath(profile, cfg), "run", check, "--tier", tier, "--seed", str(seed),
           "--shard", str(shard), "--nshards", str(nshards), "--out", out]
    if scale is not None:
        cmd += ["--scale", str(scale)]
    env = dict(ENV)
    if extra_env:
        env.update(extra_env)
    t0 = time.time()
    try:
        p = subprocess.run(cmd, env=env, stdout=subprocess.PIPE, stderr=subprocess.PIPE, timeout=timeout)
        rc, err = p.returncode, p.stderr.decode("utf-8", "replace")[-2000:]
    except subprocess.TimeoutExpired:
        rc, err = -999, "wall-clock watchdog fired"
    rep = None
    if rc == 0 and os.path.exists(out):
        with open(out) as f:
            rep = json.load(f)
        os.remove(out)
    return {"profile": profile, "cfg": cfg, "shard": shard, "rc": rc, "stderr": err, "report": rep,
            "wall": time.time() - t0, "cmd": cmd}


def trace_rerun(job, check, tier, seed, nshards):
    """A shard died abnormally (stall, abort, signal): re-run it in trace mode; if it dies
    again the last traced input is the witness, otherwise the death is inconclusive."""
    tr = os.path.join(WORK, "trace-%s-%s-%s-%d-%s.txt" % (check, job["profile"], job["cfg"], job["shard"], RUNID))
    if os.path.exists(tr):
        os.remove(tr)
    again = run_shard(check, job["profile"], job["cfg"], tier, seed, job["shard"], nshards,
                      extra_env={"AISMON_TRACE": tr})
    last = None
    if os.path.exists(tr):
        with open(tr, "rb") as f:
            lines = f.read().splitlines()
        if lines:
            last = lines[-1].decode("ascii", "replace")
        os.remove(tr)
    if again["rc"] == 0 or last is None:
        return None
    if "AISMON-HARNESS-PANIC" in again["stderr"] or "AISMON-HARNESS-PANIC" in job.get("stderr", ""):
        # the harness itself panicked outside a call into ais: a defect of the machinery,
        # never a verdict on the code under test
        return {"harness_error": again["stderr"][-300:]}
    kind, extra, hexdata = (last.split(" ") + ["", "", ""])[:3]
    if kind == "L":
        replay = {"kind": "history", "cfg": job["cfg"], "note": "last traced input before abnormal exit",
                  "lines": [{"hex": hexdata, "decode": extra == "1"}]}
    elif kind == "U":
        replay = {"kind": "unarmor", "cfg": job["cfg"], "hex": hexdata, "fill": int(extra or 0)}
    else:
        replay = {"kind": "message", "cfg": job["cfg"], "hex": hexdata}
    why = "stall (no progress for 30 s + 1 s per MiB of input)" if again["rc"] == 3 else "abnormal exit status %s" % again["rc"]
    return {"prop": check, "sig": "process-death:%s" % ("stall" if again["rc"] == 3 else again["rc"]),
            "detail": "%s/%s shard %d: %s reproduced in trace mode; last input is the witness. stderr: %s" % (
                job["profile"], job["cfg"], job["shard"], why, again["stderr"][-300:]),
            "replay": replay, "cfg": job["cfg"], "profile": job["profile"]}


# ----------------------------------------------------------------------------
# known findings

def load_known():
    known, fixed = [], []
    path = os.path.join(VERIF, "known_findings.txt")
    if not os.path.exists(path):
        return known, fixed
    for line in open(path):
        line = line.strip()
        if not line or line.startswith("#"):
            continue
        head, _, rest = line.partition(" ")
        kv = {}
        words = rest.split(" ")
        text = []
        for w in words:
            if "=" in w and not text and w.split("=", 1)[0] in ("property", "id", "signature", "site", "pairs", "example"):
                k, v = w.split("=", 1)
                kv[k] = v
            else:
                text.append(w)
        kv["text"] = " ".join(text)
        if head == "known:":
            known.append(kv)
        elif head == "fixed:":
            fixed.append(kv)
    return known, fixed


def classify(prop, sig, known):
    """returns the known-finding entry whose exact signature this violation matches, or None"""
    for k in known:
        if k.get("property") != prop:
            continue
        s = k.get("signature", "")
        if "pairs" in k:
            if sig.startswith(s + ":") and sig[len(s) + 1:] in k["pairs"].split(","):
                return k
        elif sig == s:
            return k
    return None


# ----------------------------------------------------------------------------

def write_evidence(pid, tier, seed, coverage, wall, nviol, assumptions=None, level="exploration"):
    os.makedirs(os.path.join(OUT, "evidence"), exist_ok=True)
    ev = {
        "property_id": pid,
        "tier": tier,
        "seed": seed,
        "level": level,
        "coverage": coverage,
        "assumptions": assumptions or ASSUMPTIONS["default"],
        "wall_s": round(wall, 2),
        "violations": nviol,
    }
    with open(os.path.join(OUT, "evidence", pid + ".json"), "w") as f:
        json.dump(ev, f, indent=1, sort_keys=True)
        f.write("\n")


def finish(pid, tier, seed, t0, coverage, violations, inconclusive, replay_dir=None):
    """violations: list of dicts(prop, sig, detail, replay, cfg, profile, count).
    Prints the verdict lines, writes evidence and replays, returns the exit status."""
    known, _fixed = load_known()
    os.makedirs(os.path.join(OUT, "replays"), exist_ok=True)
    fresh, kf = [], {}
    for v in violations:
        k = classify(v["prop"], v["sig"], known)
        if k is not None:
            e = kf.setdefault(k.get("id", k.get("signature")), {"entry": k, "count": 0, "sigs": set()})
            e["count"] += v.get("count", 1)
            e["sigs"].add(v["sig"])
        else:
            fresh.append(v)
    coverage["known_findings_observed"] = {k: {"executions": e["count"], "distinct_signatures": len(e["sigs"])} for k, e in kf.items()}
    coverage["fresh_violation_signatures"] = sorted({v["sig"] for v in fresh})[:50]
    nfresh = sum(v.get("count", 1) for v in fresh)
    write_evidence(pid, tier, seed, coverage, time.time() - t0, nfresh)
    for kid, e in kf.items():
        print("KNOWN-FINDING: property=%s %s (%d executions matched signature %s)" % (
            pid, e["entry"]["text"], e["count"], e["entry"].get("signature")))
    if fresh:
        seen = set()
        n = 0
        for v in fresh:
            key = (v["sig"], v.get("cfg"), v.get("profile"))
            if key in seen:
                continue
            seen.add(key)
            n += 1
            path = os.path.join(OUT, "replays", "%s-%d-%d.json" % (pid, seed, n))
            rec = dict(v["replay"]) if isinstance(v["replay"], dict) else {"kind": "note", "note": v["replay"]}
            rec.update({"property": pid, "signature": v["sig"], "detail": v["detail"],
                        "build": "%s/%s" % (v.get("profile"), v.get("cfg")), "seed": seed, "tier": tier})
            with open(path, "w") as f:
                json.dump(rec, f, indent=1)
            print("VIOLATION property=%s replay=%s" % (pid, path))
            print("  [%s/%s] %s: %s" % (v.get("profile"), v.get("cfg"), v["sig"], v["detail"][:600]))
            if n >= 25:
                print("  ... %d further distinct signatures suppressed" % (len({(x['sig'], x.get('cfg'), x.get('profile')) for x in fresh}) - n))
                break
        return 1
    if inconclusive:
        for why in inconclusive:
            print("INCONCLUSIVE: property=%s %s" % (pid, why))
        return 2
    print("HELD: property=%s tier=%s seed=%d evaluations=%d distinct_classes=%d" % (
        pid, tier, seed, coverage.get("evaluations", 0), coverage.get("distinct_nontrivial", 0)))
    return 0


def merge_reports(jobs):
    """aggregate shard reports into coverage + violation list + inconclusive reasons"""
    evaluations = 0
    classes = set()
    counters = {}
    per_build = {}
    samples = []
    violations = []
    tokens = 0
    extras = {}
    inconclusive = []
    required = {}
    for j in jobs:
        r = j["report"]
        if r is None:
            continue
        b = "%s/%s" % (j["profile"], j["cfg"])
        evaluations += r["evaluations"]
        pb = per_build.setdefault(b, {"evaluations": 0, "classes": set(), "violations": 0, "shards": 0})
        pb["evaluations"] += r["evaluations"]
        pb["shards"] += 1
        pb["violations"] += r["nviol"]
        for c in r["classes"]:
            classes.add(b + "|" + c)
            pb["classes"].add(c)
        for k, v in r["counters"].items():
            counters[b + "|" + k] = counters.get(b + "|" + k, 0) + v
        for k in r.get("required", []):
            required.setdefault(b, set()).add(k)
        if len(samples) < 8:
            for s in r["samples"][:2]:
                if s not in samples and len(samples) < 8:
                    samples.append(s)
        tokens = max(tokens, r.get("state_tokens", 0))
        for k, v in r.get("extra", {}).items():
            extras.setdefault(k, v)
        # violations: stored examples carry the per-signature totals
        counted = set()
        for v in r["violations"]:
            key = "%s|%s" % (v["prop"], v["sig"])
            cnt = r["by_sig"].get(key, 1) if key not in counted else 0
            counted.add(key)
            violations.append({"prop": v["prop"], "sig": v["sig"], "detail": v["detail"], "replay": v["replay"],
                               "cfg": j["cfg"], "profile": j["profile"], "count": cnt})
        # signatures whose examples were not stored (cap) still count
        for key, cnt in r["by_sig"].items():
            if key not in counted:
                prop, sig = key.split("|", 1)
                violations.append({"prop": prop, "sig": sig, "detail": "(example not stored)", "replay": {"kind": "note"},
                                   "cfg": j["cfg"], "profile": j["profile"], "count": cnt})
    for b, req in required.items():
        for k in req:
            if counters.get(b + "|" + k, 0) == 0:
                inconclusive.append("required coverage class '%s' never reached in build %s" % (k, b))
    cov = {
        "evaluations": evaluations,
        "distinct_nontrivial": len(classes),
        "samples": samples,
        "per_build": {b: {"evaluations": v["evaluations"], "distinct_classes": len(v["classes"]), "shards": v["shards"],
                          "violating_executions": v["violations"]} for b, v in per_build.items()},
        "distinct_parser_state_tokens_max_per_shard": tokens,
    }
    for k, v in extras.items():
        cov[k] = v
    return cov, violations, inconclusive, counters


def run_generic(pid, tier, seed, pairs, nshards=NCPU, scale=None, workload=None):
    workload = workload or pid
    jobs = []
    with cf.ThreadPoolExecutor(max_workers=NCPU) as ex:
        futs = [ex.submit(run_shard, workload, pr, cfg, tier, seed, sh, nshards, scale)
                for (pr, cfg) in pairs for sh in range(nshards)]
        for f in futs:
            jobs.append(f.result())
    extra_viol, inconclusive = [], []
    for j in jobs:
        if j["rc"] != 0:
            w = trace_rerun(j, workload, tier, seed, nshards)
            if w is not None and "harness_error" in w:
                inconclusive.append("harness error in shard %s/%s #%d: %s" % (j["profile"], j["cfg"], j["shard"], w["harness_error"].replace("\n", " ")))
            elif w is not None:
                w["prop"] = pid
                extra_viol.append(w)
            else:
                inconclusive.append("shard %s/%s #%d exited with status %s and the death did not reproduce in trace mode: %s" % (
                    j["profile"], j["cfg"], j["shard"], j["rc"], j["stderr"][-200:].replace("\n", " ")))
    cov, violations, inc2, counters = merge_reports(jobs)
    return cov, violations + extra_viol, inconclusive + inc2, counters


def counters_table(counters, prefix):
    t = {}
    for k, v in counters.items():
        b, _, name = k.partition("|")
        if name.startswith(prefix):
            t.setdefault(name[len(prefix):], {})[b] = v
    return t


def main():
    args = sys.argv[1:]
    if not args:
        print(__doc__)
        return 2
    pid = args[0]
    tier = os.environ.get("VERIF_TIER", "quick")
    seed = int(os.environ.get("VERIF_SEED", "1") or 1)
    replay = None
    i = 1
    while i < len(args):
        if args[i] == "--tier":
            tier = args[i + 1]
            i += 2
        elif args[i] == "--seed":
            seed = int(args[i + 1])
            i += 2
        elif args[i] == "--replay":
            replay = args[i + 1]
            i += 2
        else:
            i += 1
    if tier not in ("quick", "thorough"):
        tier = "quick"
    t0 = time.time()

    if replay:
        rec = json.load(open(replay))
        cfg = (rec.get("build", "chk/std").split("/") + ["std"])[1] if "build" in rec else rec.get("cfg", "std")
        prof = rec.get("build", "chk/std").split("/")[0]
        if cfg not in ("std", "alloc", "none"):
            cfg = "std"
        if prof not in PROFILE_DIR:
            prof = "chk"
        ok, msg = build_all([(prof, cfg)])
        if not ok:
            print("INCONCLUSIVE: " + msg)
            return 2
        print("recorded: %s" % rec.get("detail", ""))
        if rec.get("kind") in ("history", "message", "unarmor"):
            return subprocess.run([binpath(prof, cfg), "replay", replay], env=ENV).returncode
        if rec.get("kind") == "cli-stream":
            import cli_monitor
            return cli_monitor.replay(rec)
        print(json.dumps(rec, indent=1))
        return 0

    if pid == "C18":
        import c18_driver
        return c18_driver.run(sys.modules[__name__], tier, seed, t0)
    if pid == "C20":
        import cli_monitor
        return cli_monitor.run(sys.modules[__name__], tier, seed, t0)
    if pid not in PLAN:
        print("unknown property id %s" % pid)
        return 2

    pairs = PLAN[pid][tier]
    ok, msg = build_all(sorted(set(pairs)))
    if not ok:
        print("INCONCLUSIVE: property=%s %s" % (pid, msg))
        write_evidence(pid, tier, seed, {"evaluations": 0, "distinct_nontrivial": 0, "rule": RULES[pid], "samples": [],
                                         "explanation": "build failed: inconclusive"}, time.time() - t0, 0)
        return 2
    cov, violations, inconclusive, counters = run_generic(pid, tier, seed, pairs)
    cov["rule"] = RULES[pid]
    # property-specific tables
    if pid == "C06":
        cov["transition_cells"] = counters_table(counters, "cell:")
    if pid == "C16":
        cov["per_type"] = {k: v for k, v in counters_table(counters, "t").items()}
        cov["exhaustive"] = True
    if pid in ("C09", "C12", "C19", "C14", "C15"):
        cov["exhaustive"] = True
    if pid == "C19":
        cov["agreement"] = counters_table(counters, "")
    if pid == "C01":
        import c01_extra
        c01_extra.run(sys.modules[__name__], tier, seed, cov, violations, inconclusive)
    if pid == "C17":
        import c01_extra
        c01_extra.run_c17_threads(sys.modules[__name__], tier, seed, cov, violations, inconclusive)
    return finish(pid, tier, seed, t0, cov, violations, inconclusive)


if __name__ == "__main__":
    sys.exit(main())
