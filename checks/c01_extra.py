"""Sanitizer layers.

C01 (thorough): the C01 workload under AddressSanitizer (nightly, release profile so that
no debug assertion pre-empts a memory error) in the std and no-allocator configurations, and a
Miri-sized workload (C01M) under Miri in all three configurations.
C17 (thorough): parser instances on separate threads under Miri (data-race detector) with
several scheduler seeds.

A sanitizer report or an abnormal exit is a violation (with the stderr tail as the witness
and, for ASan, the last traced input); a build failure of a sanitizer layer is recorded in the
evidence as unavailable and makes the run inconclusive, never a violation."""
import concurrent.futures as cf
import json
import os
import subprocess
import time


def _cargo_env(drv, extra=None):
    env = dict(drv.ENV)
    if extra:
        env.update(extra)
    return env


def build_asan(drv, cfg):
    env = _cargo_env(drv, {"RUSTFLAGS": "-Zsanitizer=address -Cforce-frame-pointers=yes"})
    cmd = ["cargo", "+nightly", "build", "--offline", "--release", "--manifest-path", os.path.join(drv.HARNESS, "Cargo.toml"),
           "--features", "cfg_" + cfg, "--target", "x86_64-unknown-linux-gnu",
           "--target-dir", os.path.join(drv.BUILD, "asan-" + cfg)]
    p = subprocess.run(cmd, env=env, stdout=subprocess.PIPE, stderr=subprocess.STDOUT, text=True)
    return p.returncode == 0, p.stdout[-1500:]


def asan_bin(drv, cfg):
    return os.path.join(drv.BUILD, "asan-" + cfg, "x86_64-unknown-linux-gnu", "release", "aismon")


def run_asan_shard(drv, cfg, seed, shard, nshards):
    out = os.path.join(drv.WORK, "asan-%s-%d-%s.json" % (cfg, shard, drv.RUNID))
    env = dict(drv.ENV)
    env["ASAN_OPTIONS"] = "detect_leaks=0:halt_on_error=1:exitcode=66:abort_on_error=0"
    cmd = [asan_bin(drv, cfg), "run", "C01", "--tier", "quick", "--seed", str(seed), "--shard", str(shard),
           "--nshards", str(nshards), "--out", out]
    try:
        p = subprocess.run(cmd, env=env, stdout=subprocess.PIPE, stderr=subprocess.PIPE, timeout=3600)
        rc, err = p.returncode, p.stderr.decode("utf-8", "replace")
    except subprocess.TimeoutExpired:
        rc, err = -999, "watchdog"
    rep = None
    if rc == 0 and os.path.exists(out):
        rep = json.load(open(out))
        os.remove(out)
    return {"cfg": cfg, "shard": shard, "rc": rc, "stderr": err[-3000:], "report": rep, "profile": "asan"}


def miri_cmd(drv, cfg, args):
    return ["cargo", "+nightly", "miri", "run", "--offline", "--manifest-path", os.path.join(drv.HARNESS, "Cargo.toml"),
            "--features", "cfg_" + cfg, "--target-dir", os.path.join(drv.BUILD, "miri-" + cfg), "--"] + args


def run_miri(drv, cfg, workload, seed, shard, nshards, miriflags="", timeout=3600):
    env = _cargo_env(drv, {"MIRIFLAGS": ("-Zmiri-disable-isolation " + miriflags).strip(), "AISMON_NO_WATCHDOG": "1"})
    cmd = miri_cmd(drv, cfg, ["run", workload, "--tier", "quick", "--seed", str(seed), "--shard", str(shard), "--nshards", str(nshards)])
    t0 = time.time()
    try:
        p = subprocess.run(cmd, env=env, stdout=subprocess.PIPE, stderr=subprocess.PIPE, timeout=timeout)
        rc, out, err = p.returncode, p.stdout.decode("utf-8", "replace"), p.stderr.decode("utf-8", "replace")
    except subprocess.TimeoutExpired:
        return {"cfg": cfg, "shard": shard, "rc": -999, "stderr": "watchdog", "report": None, "profile": "miri", "wall": time.time() - t0}
    rep = None
    if rc == 0:
        for line in out.splitlines():
            if line.startswith("{"):
                try:
                    rep = json.loads(line)
                except ValueError:
                    pass
    return {"cfg": cfg, "shard": shard, "rc": rc, "stderr": err[-3000:], "report": rep, "profile": "miri", "wall": time.time() - t0}


def miri_warm(drv, cfg):
    """first invocation builds the sysroot and the dependencies; do it once, serially per cfg"""
    env = _cargo_env(drv, {"MIRIFLAGS": "-Zmiri-disable-isolation", "AISMON_NO_WATCHDOG": "1"})
    p = subprocess.run(miri_cmd(drv, cfg, ["selftest-none"]), env=env, stdout=subprocess.PIPE, stderr=subprocess.STDOUT, text=True)
    ok = "unknown command" in p.stdout or p.returncode in (0, 2)
    return ok, p.stdout[-1500:]


def _collect(drv, jobs, pid, cov_key, cov, violations, inconclusive, kind):
    evals = 0
    classes = set()
    reports = 0
    for j in jobs:
        r = j["report"]
        if r is not None:
            evals += r["evaluations"]
            classes.update(r["classes"])
            for v in r["violations"]:
                violations.append({"prop": pid, "sig": v["sig"], "detail": "[%s/%s] %s" % (kind, j["cfg"], v["detail"]),
                                   "replay": v["replay"], "cfg": j["cfg"], "profile": kind, "count": r["by_sig"].get("%s|%s" % (v["prop"], v["sig"]), 1)})
            continue
        err = j["stderr"]
        if "AddressSanitizer" in err or "Undefined Behavior" in err or "error: unsupported operation" in err or "data race" in err.lower():
            reports += 1
            first = next((l for l in err.splitlines() if "ERROR: AddressSanitizer" in l or "Undefined Behavior" in l or "Data race" in l or "unsupported operation" in l), "sanitizer report")
            violations.append({"prop": pid, "sig": "%s-report:%s" % (kind, first.strip()[:80]),
                               "detail": "%s reported on shard %d of build %s: %s" % (kind, j["shard"], j["cfg"], err[-1200:]),
                               "replay": {"kind": "note", "note": "re-run: shard %d, build %s, see detail" % (j["shard"], j["cfg"])},
                               "cfg": j["cfg"], "profile": kind, "count": 1})
        elif j["rc"] == -999:
            inconclusive.append("%s shard %d (%s) hit the wall-clock watchdog" % (kind, j["shard"], j["cfg"]))
        else:
            violations.append({"prop": pid, "sig": "%s-abnormal-exit:%s" % (kind, j["rc"]),
                               "detail": "%s build %s shard %d exited with status %s: %s" % (kind, j["cfg"], j["shard"], j["rc"], err[-800:]),
                               "replay": {"kind": "note", "note": "abnormal exit under " + kind}, "cfg": j["cfg"], "profile": kind, "count": 1})
    cov.setdefault("sanitizers", {})[cov_key] = {"calls_observed": evals, "distinct_classes": len(classes), "processes": len(jobs),
                                                  "sanitizer_reports": reports}


def run(drv, tier, seed, cov, violations, inconclusive):
    cov.setdefault("sanitizers", {})["overflow_and_ub_checks"] = "chk builds: overflow-checks, debug-assertions and std unsafe-precondition checks live in every call counted above"
    if tier != "thorough":
        # every change: the Miri-sized workload in the no-allocator configuration (where the one
        # unsafe block and the fixed-capacity containers live), 8 processes. If Miri cannot be
        # built here the evidence says so; that is not a verdict.
        cov["sanitizers"]["asan"] = "thorough tier"
        ok, msg = miri_warm(drv, "none")
        if not ok:
            cov["sanitizers"]["miri"] = "unavailable in this environment (not a verdict): " + msg[-200:]
            return
        with cf.ThreadPoolExecutor(max_workers=8) as ex:
            jobs = list(ex.map(lambda s: run_miri(drv, "none", "C01M", seed, s, 8, timeout=900), range(8)))
        # in the quick tier a Miri process that could not run is not allowed to make the check
        # inconclusive; only reports and reproducible panics count
        quick_inconclusive = []
        _collect(drv, jobs, "C01", "miri", cov, violations, quick_inconclusive, "miri")
        if quick_inconclusive:
            cov["sanitizers"]["miri_notes"] = quick_inconclusive
        return
    os.makedirs(drv.WORK, exist_ok=True)
    # AddressSanitizer
    jobs = []
    for cfg in ("std", "none"):
        ok, msg = build_asan(drv, cfg)
        if not ok:
            cov["sanitizers"]["asan-" + cfg] = "unavailable: build failed"
            inconclusive.append("ASan build for %s failed: %s" % (cfg, msg[-300:]))
            continue
        with cf.ThreadPoolExecutor(max_workers=drv.NCPU) as ex:
            jobs += list(ex.map(lambda s: run_asan_shard(drv, cfg, seed, s, drv.NCPU), range(drv.NCPU)))
    _collect(drv, jobs, "C01", "asan", cov, violations, inconclusive, "asan")
    # Miri
    jobs = []
    for cfg in ("std", "alloc", "none"):
        ok, msg = miri_warm(drv, cfg)
        if not ok:
            cov["sanitizers"]["miri-" + cfg] = "unavailable"
            inconclusive.append("Miri build for %s failed: %s" % (cfg, msg[-300:]))
            continue
        with cf.ThreadPoolExecutor(max_workers=drv.NCPU) as ex:
            jobs += list(ex.map(lambda s: run_miri(drv, cfg, "C01M", seed, s, drv.NCPU), range(drv.NCPU)))
    _collect(drv, jobs, "C01", "miri", cov, violations, inconclusive, "miri")
    coverage_layer(drv, seed, cov)


def coverage_layer(drv, seed, cov):
    """Measured, not assumed: which regions of /repo/src do the workloads of all checks reach?
    A -Cinstrument-coverage build of the harness (std configuration) runs one shard of every
    workload; llvm-profdata / llvm-cov from the nightly sysroot report per-file region coverage.
    Informational: a failure here only leaves a note in the evidence."""
    import glob
    import shutil
    try:
        sysroot = subprocess.run(["rustc", "+nightly", "--print", "sysroot"], stdout=subprocess.PIPE, text=True, env=drv.ENV).stdout.strip()
        tools = os.path.join(sysroot, "lib", "rustlib", "x86_64-unknown-linux-gnu", "bin")
        if not os.path.exists(os.path.join(tools, "llvm-cov")):
            cov["repo_region_coverage"] = "unavailable: llvm-tools not in the nightly sysroot"
            return
        tdir = os.path.join(drv.BUILD, "cov-std")
        env = _cargo_env(drv, {"RUSTFLAGS": "-Cinstrument-coverage"})
        p = subprocess.run(["cargo", "+nightly", "build", "--offline", "--profile", "chk", "--manifest-path", os.path.join(drv.HARNESS, "Cargo.toml"),
                            "--features", "cfg_std", "--target-dir", tdir], env=env, stdout=subprocess.PIPE, stderr=subprocess.STDOUT, text=True)
        if p.returncode != 0:
            cov["repo_region_coverage"] = "unavailable: coverage build failed"
            return
        binp = os.path.join(tdir, "chk", "aismon")
        pdir = os.path.join(drv.WORK, "covprof")
        shutil.rmtree(pdir, ignore_errors=True)
        os.makedirs(pdir)
        wl = ["C%02d" % i for i in range(1, 20)]

        def one(c):
            e = dict(drv.ENV)
            e["LLVM_PROFILE_FILE"] = os.path.join(pdir, c + "-%p.profraw")
            subprocess.run([binp, "run", c, "--tier", "quick", "--seed", str(seed), "--shard", "0", "--nshards", "64", "--out", os.devnull],
                           env=e, stdout=subprocess.DEVNULL, stderr=subprocess.DEVNULL, timeout=1800)
        with cf.ThreadPoolExecutor(max_workers=drv.NCPU) as ex:
            list(ex.map(one, wl))
        prof = os.path.join(pdir, "all.profdata")
        subprocess.run([os.path.join(tools, "llvm-profdata"), "merge", "-sparse"] + glob.glob(os.path.join(pdir, "*.profraw")) + ["-o", prof], check=True)
        q = subprocess.run([os.path.join(tools, "llvm-cov"), "export", "-summary-only", binp, "-instr-profile=" + prof,
                            "--ignore-filename-regex=(harness|registry|rustc|library)"], stdout=subprocess.PIPE, check=True)
        data = json.loads(q.stdout.decode())["data"][0]
        files = {}
        for f in data["files"]:
            name = f["filename"].split("/src/", 1)[-1]
            files[name] = {"regions": f["summary"]["regions"]["count"], "regions_covered": f["summary"]["regions"]["covered"],
                           "lines": f["summary"]["lines"]["count"], "lines_covered": f["summary"]["lines"]["covered"]}
        t = data["totals"]
        cov["repo_region_coverage"] = {
            "workloads": wl, "shard": "0 of 64 of each workload, std configuration",
            "total_regions": t["regions"]["count"], "total_regions_covered": t["regions"]["covered"],
            "total_lines": t["lines"]["count"], "total_lines_covered": t["lines"]["covered"],
            "files": files,
            "note": "regions never executed: the AisMessageType::name() methods, the Display impl and string conversions of errors.rs, and arms that cannot be reached from a take of the stated width (unreachable!(), sync state > 3, 4-bit codes > 15, parse_radio for other types)",
        }
        shutil.rmtree(pdir, ignore_errors=True)
    except Exception as e:  # noqa
        cov["repo_region_coverage"] = "unavailable: %r" % (e,)


def run_c17_threads(drv, tier, seed, cov, violations, inconclusive):
    if tier != "thorough":
        cov["threads_under_miri"] = "thorough tier"
        return
    jobs = []
    for cfg in ("std", "none"):
        ok, msg = miri_warm(drv, cfg)
        if not ok:
            inconclusive.append("Miri build for %s failed: %s" % (cfg, msg[-300:]))
            continue
        # several scheduler seeds: Miri's thread interleaving is seed-dependent
        with cf.ThreadPoolExecutor(max_workers=drv.NCPU) as ex:
            jobs += list(ex.map(lambda s: run_miri(drv, cfg, "C17T", seed + s, 0, 1, miriflags="-Zmiri-seed=%d" % s), range(8)))
    _collect(drv, jobs, "C17", "threads_under_miri", cov, violations, inconclusive, "miri")
