"""Sanitizer layers for C01 (release builds are in the plan already; here: Miri, ASan,
valgrind) and the threaded instance-independence run for C17 (Miri)."""


def run(drv, tier, seed, cov, violations, inconclusive):
    cov.setdefault("sanitizers", {})["note"] = "see thorough tier"


def run_c17_threads(drv, tier, seed, cov, violations, inconclusive):
    pass
