#!/usr/bin/env python3
"""Writes /verif/MANIFEST.json from the table below (kept in one place so that it stays valid)."""
import json
import os

VERIF = os.path.dirname(os.path.dirname(os.path.abspath(__file__)))

CHECKS = {
 "C01": ("catch_unwind/heartbeat/exit-status monitor over six generators in chk (overflow+debug-assert+ub-checks) and release builds of all three configurations; thorough adds Miri and AddressSanitizer builds",
         "totality is sampled, not proved: bounded-exhaustive header-state products and short inputs, random beyond; a stall is a reproducible 8 s without progress", "5 C01"),
 "C02": ("reference checker (nmea_ref form scanner + 3-line XOR) over all 256 transmitted values per body and every single-byte corruption of the corpus, on fresh and primed parsers",
         "trusts the hand-written scanner's reading of the C08 grammar; shapes with a '*' before the terminating one are not judged (statements diverge there)", "5 C02"),
 "C03": ("reference model of 6-bit unpacking (unarmor_ref) compared bit for bit; exhaustive for lengths <= 2 (<= 3 and valid 4 in thorough), structured sampling to length 1000+",
         "trusts unarmor_ref (15 lines); no-allocator inputs above 512 characters are only required to be errors", "5 C03"),
 "C04": ("round trip against an ITU-R M.1371-5 layout model (decode_ref): per-field sweeps, adjacent-pair corners, joint random, repository vectors with fields overwritten, three delivery routes",
         "trusts the layout table of DESIGN.md Appendix A; 30-bit fields are bit-walked and sampled, not enumerated", "5 C04"),
 "C05": ("metamorphic monitor (fragmented == unfragmented decode) + exact concatenation + per-fragment field checks over all compositions of short payloads and random splits of valid messages, with prior-history and interleaved-inert-line classes",
         "no decode model needed; histories are enumerated for short payloads and sampled beyond", "5 C05"),
 "C06": ("lock-step reference automaton (reasm_ref) with unique payload ids over every history of length 4 (5 thorough) on a 20-symbol alphabet, plus fault-injected random histories with continuation probes replayed on fresh parsers",
         "automaton deliberately no stricter than C05+C06: mismatched counts, out-of-domain numbering and the state after a failed delivery are not judged", "5 C06"),
 "C07": ("field-extraction oracle (nmea_ref) + talker/report tables + twin parsers for the decode flag; exhaustive over talker byte pairs, 0..255 numerics with leading zeros, channel and payload bytes",
         "sentence-level message_type belongs to C19 and is excluded here", "5 C07"),
 "C08": ("language-membership oracle (nmea_ref) against single-point mutations at every position of valid sentences, whole-field operations, a boundary table and grammar near-misses; lines made sequencing-neutral by priming",
         "corners the statements leave open (early '*', empty tag block) are counted as dont_care and not judged", "5 C08"),
 "C09": ("64-entry dispatch table oracle over all type values x valid bodies of every layout transplanted under each type, zero/one/random bodies of every length, and through sentences",
         "only Ok results are judged (C14 decides lengths)", "5 C09"),
 "C10": ("numeric oracle (exact rational, 2.5e-7 relative tolerance): every raw value of 18/17-bit coordinates and of all speed/course/draught fields in quick; every raw value of all 28/27-bit coordinates in thorough",
         "tolerance admits any reasonable single-precision evaluation order; the sentinel raw value itself is C11's", "5 C10"),
 "C11": ("sentinel-table oracle at each field's own resolution: every value of fields <= 12 bits, neighbourhoods/extremes/other-resolution sentinel/random for wider ones, jointly with other optional fields at/not at their sentinel",
         "only fields the crate models as optional are in the table", "5 C11"),
 "C12": ("code-table oracle over every code of every enumerated field in every message type carrying it, observed-injectivity check, direct ShipType conversions 0..255",
         "names are compared through the Debug rendering of the enum value only (the property is about names); a variant rename upstream would trip it", "5 C12"),
 "C13": ("text oracle (ascii6 + three ordered trims) over all 64 values at every character position, 64^2 pairs at edge/middle positions, order-sensitive trim shapes, safety texts at every length",
         "64^k sequences are sampled structurally, not enumerated", "5 C13"),
 "C14": ("length-rule oracle: every transmitted bit length 0..max+66 of every supported type (all characters x fill pairs) x random and all-ones contents, three routes; must-reject, must-accept (legal lengths only) and element counts asserted",
         "between legal lengths either verdict is allowed and only reported values are judged", "5 C14"),
 "C15": ("byte-slice oracle on the reference-unarmored buffer for types 6/8/17 at every length up to beyond the protocol maximum x four content kinds x routes incl. multi-fragment sentences; header sweeps",
         "no-allocator build: data above 119 bytes only required to be an error", "5 C15"),
 "C16": ("20-line SOTDMA/ITDMA model over all 2^19 states (2^20 with selector) of types 1,2,3,4,9,11,18 in both tiers",
         "minute read as 7 or 6 bits both accepted (equal for every valid minute); type 9 has a known finding with an exact-signature classifier", "5 C16"),
 "C17": ("metamorphic twin runs (history with / without each inert line) compared on all other lines and on a probe suite; exhaustive over histories of length 4 (5 thorough); interleaved parser instances vs isolated runs; threads under Miri in thorough",
         "eligibility of a line (rejected for form/checksum/sequencing, or unfragmented) is decided from the observed rejection plus the reference models", "5 C17"),
 "C18": ("offline differential checker over per-call outcome logs of the std, alloc and no-allocator builds running the identical seeded workload, with capacity rules derived from std's delivered data",
         "equivalence is established on the logged calls only; after a capacity rejection the group states legitimately differ until the next opener and those calls are unjudged", "5 C18"),
 "C19": ("reference value armor::val(first payload character) for all 64 characters x sentence shapes x decode flag",
         "known finding with an exact (character, value) signature list; anything off-signature is a violation", "5 C19"),
 "C20": ("process monitor: real debug and release binaries on generated byte streams, stdout/stderr record counts and content against the library's per-line outcome, merged-pipe and strace order, independence pairs; valgrind memcheck in thorough",
         "EPIPE behaviour is outside the statement; liveness restated as exit 0 with all records for finite streams", "5 C20"),
}

TECH = {
 "C01": "runtime monitoring: panic/abort/stall watcher + overflow/ub checks, Miri, ASan",
 "C02": "runtime monitoring: reference checker over generated and corrupted lines",
 "C03": "runtime monitoring: reference-model monitor, bounded-exhaustive inputs",
 "C04": "runtime monitoring: reference-model monitor (ITU layout table) over field sweeps",
 "C05": "runtime monitoring: metamorphic + history monitor",
 "C06": "runtime monitoring: lock-step trace checker against a reference automaton",
 "C07": "runtime monitoring: reference field extraction + twin-parser monitor",
 "C08": "runtime monitoring: language-membership oracle over mutations",
 "C09": "runtime monitoring: dispatch-table monitor, exhaustive over type values",
 "C10": "runtime monitoring: numeric reference monitor, exhaustive raw-value sweeps",
 "C11": "runtime monitoring: sentinel-table monitor",
 "C12": "runtime monitoring: code-table monitor, exhaustive over codes",
 "C13": "runtime monitoring: text reference monitor",
 "C14": "runtime monitoring: length-rule monitor, exhaustive over lengths",
 "C15": "runtime monitoring: byte-slice reference monitor, exhaustive over lengths",
 "C16": "runtime monitoring: reference-model monitor, exhaustive over communication states",
 "C17": "runtime monitoring: metamorphic twin-run monitor + interleaving monitor (+ Miri threads)",
 "C18": "runtime monitoring: offline differential checker over recorded outcome logs of three builds",
 "C19": "runtime monitoring: reference-value monitor, exhaustive over first characters",
 "C20": "runtime monitoring: process-level observer (exit status, record counts/order, strace, valgrind)",
}

m = {
 "version": 1,
 "setup_cmd": "python3 checks/setup.py",
 "hooks": {
  "guard": "ais_verif (reserved, unused: no hooks were needed; all properties are observable at the public API, the Debug rendering of AisParser and the process boundary)",
  "enable": "none: checks build /repo as it is (cargo path dependency from /verif/harness, features std / alloc / none)",
  "baseline_off_cmd": "cd /repo && cargo test --workspace --no-fail-fast --offline",
  "source_commits": [],
  "add_only": True,
 },
 "engines": [
  {"name": "aismon", "path": "harness", "serves_properties": sorted(CHECKS), "kind_free_text": "Rust harness linked against /repo in three feature sets: generators, reference models (armor, nmea_ref, reasm_ref, decode_ref), observers, monitors, offline log differ"},
  {"name": "driver", "path": "checks/run.py", "serves_properties": sorted(CHECKS), "kind_free_text": "builds, shards over 16 cores, aggregates observations, known-finding classification, evidence, replay"},
  {"name": "cli_monitor", "path": "checks/cli_monitor.py", "serves_properties": ["C20"], "kind_free_text": "process-level observer of the aisparser binary"},
 ],
 "checks": [],
 "not_applicable": [],
 "notes": "Technique family: runtime monitoring and sanitizers. Every verdict is 'held on the executions observed'; evidence files list what the monitors saw. Known findings: known_findings.txt.",
}
for pid in sorted(CHECKS):
    text, note, ref = CHECKS[pid]
    m["checks"].append({
        "property_id": pid,
        "quick_cmd": "python3 checks/run.py %s --tier quick" % pid,
        "thorough_cmd": "python3 checks/run.py %s --tier thorough" % pid,
        "evidence_file": "evidence/%s.json" % pid,
        "replay_cmd_template": "python3 checks/run.py %s --replay {path}" % pid,
        "engine": "aismon",
        "level_claimed": {"category": "exploration", "text": text, "design_ref": "DESIGN.md section " + ref},
        "level_note": note,
        "technique": TECH[pid],
    })
with open(os.path.join(VERIF, "MANIFEST.json"), "w") as f:
    json.dump(m, f, indent=1)
    f.write("\n")
print("MANIFEST.json written with %d checks" % len(m["checks"]))
